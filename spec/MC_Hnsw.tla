------------------------------- MODULE MC_Hnsw -------------------------------
EXTENDS Hnsw, TLC
CONSTANTS MaxCrash
VARIABLES crashes
S(A) == A /\ UNCHANGED crashes
MCInit == Init /\ crashes = 0
MCNext ==
  \/ \E i \in Ids : S(Insert(i)) \/ S(Remove(i)) \/ S(WriteNode(i)) \/ S(PurgeSkip(i)) \/ S(PurgeDelete(i))
  \/ \E T \in SUBSET Ids : T # {} /\ S(Touch(T))
  \/ S(FlushSnapshot) \/ S(WriteIds) \/ S(WriteMeta) \/ S(FlushCommit) \/ S(FlushFail) \/ S(Reindex)
  \/ (Crash /\ crashes < MaxCrash /\ crashes' = crashes + 1)
MCSpec == MCInit /\ [][MCNext]_<<hvars, crashes>>
=============================================================================
