CONSTANT Tier = "quick"
SPECIFICATION BSpec
INVARIANT BLaws
INVARIANT BEmit
CHECK_DEADLOCK FALSE
