CONSTANTS
  NQ = 0
SPECIFICATION TraceSpec
PROPERTY AppendOnlyT
POSTCONDITION TraceAccepted
CHECK_DEADLOCK FALSE
