--------------------------- MODULE MC_Governance ---------------------------
(***************************************************************************)
(* Direction R for C19: bounded families of governance configurations      *)
(* (owners, grants scoped by kind / type / classification / element with   *)
(* ceilings and field masks, a group, delegation chains with stated and    *)
(* unstated ceilings, policy allow / deny statements with conditions,      *)
(* revocations, suspensions, expiries, session contexts) over a mixed      *)
(* population.  For every configuration and every evaluated principal TLC  *)
(* computes from Governance.tla: the permissions held at Space scope (the  *)
(* command gates), the readable elements, the field mask each readable     *)
(* element carries and whether the authority reaches the whole Space; and  *)
(* checks the laws of the oracle (default deny, deny wins, revoked /       *)
(* suspended / expired is absent, delegation attenuation).  One REPLAY     *)
(* line per configuration; harness/src/bin/drive_governance.rs builds the  *)
(* configuration through the host control plane of a real CognitiveNexus   *)
(* and compares a battery of KQL / META commands of each principal with    *)
(* the owner's answers on a clone that holds the readable elements only.   *)
(***************************************************************************)
EXTENDS Governance, TLC, Json, SequencesExt

CONSTANT Tier   \* "quick" | "thorough"
NChunks == 12
VARIABLES ci, chunk
vars == <<ci, chunk>>

Thorough == Tier = "thorough"

(* ------------------------------ populations ------------------------------ *)
El(id, kind, type, cls, refs) == [id |-> id, kind |-> kind, type |-> type, cls |-> cls, refs |-> refs]
\* A: two concept types, two predicates, every classification, one element that states none
PopA == << El(1, "concept", "Person", 0, {}),
           El(2, "concept", "Person", -1, {}),
           El(3, "concept", "Preference", 2, {}),
           El(4, "concept", "Person", 4, {}),
           El(5, "proposition", "prefers", 2, {1, 3}),
           El(6, "proposition", "mentions", 4, {2, 4}) >>
\* B: the best text matches are the hidden ones (SEARCH ranks before it filters)
PopB == << El(1, "concept", "Person", 4, {}),
           El(2, "concept", "Person", 4, {}),
           El(3, "concept", "Person", 4, {}),
           El(4, "concept", "Person", 4, {}),
           El(5, "concept", "Person", 0, {}),
           El(6, "concept", "Person", 1, {}) >>
\* C (thorough tier): the classifications the other way round, a public tuple between a secret and a private endpoint
PopC == << El(1, "concept", "Person", 4, {}),
           El(2, "concept", "Preference", 2, {}),
           El(3, "concept", "Person", 1, {}),
           El(4, "concept", "Person", 0, {}),
           El(5, "proposition", "prefers", 0, {1, 2}),
           El(6, "proposition", "mentions", 1, {3, 4}) >>
PopOf(name) == IF name = "A" THEN PopA ELSE IF name = "B" THEN PopB ELSE PopC

(* ------------------------------ vocabulary ------------------------------- *)
Ps == {"a", "b", "c"}
All == Ps \cup {"own"}
RB == {"read", "search", "discover", "export"}
HB == RB \cup {"read_history"}
\* every permission name the engine registers (permission.rs): whatever a session holds, no KIP command reaches the plane
WB == HB \cup {"project", "read_raw_origin", "create", "update", "derive", "assert", "record_attributed_assertion",
              "assert_as_actor", "retract_own", "supersede_own", "moderate_assertion", "manage_actor_binding",
              "bind_canonical_identity", "merge_identity", "maintain", "archive", "quarantine", "tombstone", "import",
              "share", "manage_retention", "legal_hold", "purge", "declassify", "manage_membership", "manage_grants",
              "manage_delegation", "delegate", "manage_policy", "manage_trust", "manage_schema", "elevate_authority",
              "approve_high_risk", "read_audit", "read_governance_history"}
Interesting == {"read", "search", "discover", "export", "read_history"}

\* real field names: the mask's length enters the choice between two allows
HideAttrs == {"name", "schema_ref", "governance", "_system"}
HideName  == {"attributes", "schema_ref", "governance", "_system"}

Ctx0 == [strength |-> 1, purpose |-> "", pa |-> 0, chain |-> <<>>]
OwnCtx == [strength |-> 2, purpose |-> "system_maintenance", pa |-> 2, chain |-> <<>>]
Base == [pstat |-> [p \in All |-> "active"], owners |-> {"own"}, sstat |-> "active", members |-> {},
         ctx |-> [p \in All |-> IF p = "own" THEN OwnCtx ELSE Ctx0],
         grants |-> <<>>, delegs |-> <<>>, policy |-> <<>>]

K(s) == [AnyScope EXCEPT !.kinds = s]
T(s) == [AnyScope EXCEPT !.types = s]
C(s) == [AnyScope EXCEPT !.classes = s]
E(s) == [AnyScope EXCEPT !.elems = s]
Co(ceil) == [AnyCons EXCEPT !.ceil = ceil]
CoM(ceil, fields) == [AnyCons EXCEPT !.ceil = ceil, !.fields = fields]
Until(t) == [AnyCond EXCEPT !.until = t]

Gr(to, acts, scope, cons) ==
  [to |-> to, grp |-> FALSE, acts |-> acts, scope |-> scope, cond |-> AnyCond, cons |-> cons,
   deleg |-> FALSE, status |-> "active"]
GrD(to, acts, scope, cons) == [Gr(to, acts, scope, cons) EXCEPT !.deleg = TRUE]
GrG(acts, scope, cons) == [Gr("g", acts, scope, cons) EXCEPT !.grp = TRUE]
De(from, to, acts, scope, cons) ==
  [from |-> from, to |-> to, acts |-> acts, scope |-> scope, cond |-> AnyCond, cons |-> cons,
   parent |-> 0, redeleg |-> FALSE, status |-> "active"]
St(effect, principals, groups, acts, scope) ==
  [effect |-> effect, principals |-> principals, groups |-> groups, acts |-> acts, scope |-> scope,
   cond |-> AnyCond, cons |-> AnyCons]

Case(fam, cfg, eval) == [fam |-> fam, cfg |-> cfg, pop |-> "A", eval |-> eval, mut |-> FALSE]
S(set) == SetToSeq(set)

Scopes == {AnyScope, K({"concept"}), K({"proposition"}), T({"Person"}), T({"Person", "prefers"}),
           C({0}), C({0, 1}), C({4}), E({1}), E({2, 4, 6}),
           [AnyScope EXCEPT !.kinds = {"concept"}, !.classes = {1, 2}]}
Ceils == IF Thorough THEN {NoCeil, 0, 1, 2, 3, 4} ELSE {NoCeil, 0, 1, 4}

(* --- F1: one direct Grant: scope x ceiling x mask ------------------------- *)
F1 == { Case("grant", [Base EXCEPT !.grants = << Gr("a", HB, sc, CoM(ce, m)) >>], <<"a", "b">>) :
          sc \in Scopes, ce \in Ceils, m \in (IF Thorough THEN {{}, HideAttrs, HideName} ELSE {{}, HideAttrs}) }
     \cup
      (IF Thorough
       THEN { [Case("grant-pop-c", [Base EXCEPT !.grants = << Gr("a", HB, sc, CoM(ce, m)) >>], <<"a">>) EXCEPT !.pop = "C"] :
                sc \in Scopes, ce \in Ceils, m \in {{}, HideAttrs} }
       ELSE {})
     \cup
      { Case("grant-hide-name", [Base EXCEPT !.grants = << Gr("a", HB, sc, CoM(ce, HideName)) >>], <<"a">>) :
          sc \in {AnyScope, K({"concept"}), C({0, 1})}, ce \in {NoCeil, 1} }

(* --- F1b: the lifecycle of one Grant -------------------------------------- *)
G0(ce) == Gr("a", HB, AnyScope, Co(ce))
WithCtx(cfg, p, x) == [cfg EXCEPT !.ctx[p] = x]
F1b == UNION { {
    Case("grant-revoked", [Base EXCEPT !.grants = << [G0(ce) EXCEPT !.status = "revoked"] >>], <<"a">>),
    Case("grant-no-read", [Base EXCEPT !.grants = << [G0(ce) EXCEPT !.acts = {"create", "read_history"}] >>], <<"a">>),
    Case("principal-suspended", [Base EXCEPT !.grants = << G0(ce) >>, !.pstat["a"] = "suspended"], <<"a">>),
    Case("principal-revoked", [Base EXCEPT !.grants = << G0(ce) >>, !.pstat["a"] = "revoked"], <<"a">>),
    Case("space-suspended", [Base EXCEPT !.grants = << G0(ce) >>, !.sstat = "suspended"], <<"a">>),
    Case("group-member", [Base EXCEPT !.grants = << GrG(HB, AnyScope, Co(ce)) >>, !.members = {"a", "c"}], <<"a", "b", "c">>),
    Case("group-member-suspended", [Base EXCEPT !.grants = << GrG(HB, AnyScope, Co(ce)) >>, !.members = {"a", "c"},
                                                 !.pstat["c"] = "suspended"], <<"a", "c">>),
    Case("expired", [Base EXCEPT !.grants = << [G0(ce) EXCEPT !.cond = Until(5)] >>], <<"a">>),
    Case("not-expired", [Base EXCEPT !.grants = << [G0(ce) EXCEPT !.cond = Until(20)] >>], <<"a">>),
    Case("not-yet", [Base EXCEPT !.grants = << [G0(ce) EXCEPT !.cond = [AnyCond EXCEPT !.from = 20]] >>], <<"a">>),
    Case("in-window", [Base EXCEPT !.grants = << [G0(ce) EXCEPT !.cond = [AnyCond EXCEPT !.from = 5, !.until = 20]] >>], <<"a">>),
    Case("read-without-history", [Base EXCEPT !.grants = << [G0(ce) EXCEPT !.acts = RB] >>], <<"a">>),
    Case("history-without-read", [Base EXCEPT !.grants = << [G0(ce) EXCEPT !.acts = {"read_history", "discover"}] >>], <<"a">>)
  } : ce \in {NoCeil, 1} }
  \cup
  { Case("strength", WithCtx([Base EXCEPT !.grants = << [G0(1) EXCEPT !.cond = [AnyCond EXCEPT !.strength = need]] >>],
                             "a", [Ctx0 EXCEPT !.strength = have]), <<"a">>) :
      need \in {1, 2}, have \in {0, 1, 2} }
  \cup
  { Case("purpose", WithCtx([Base EXCEPT !.grants = << [G0(1) EXCEPT !.cond = [AnyCond EXCEPT !.purpose = {"audit"}, !.pa = needpa]] >>],
                            "a", [Ctx0 EXCEPT !.purpose = pu, !.pa = pa]), <<"a">>) :
      needpa \in {0, 1}, pu \in {"", "audit", "other"}, pa \in {0, 1} }

(* --- F2: two allows: the least restrictive one carries the mask ----------- *)
F2a == { Gr("a", HB, AnyScope, CoM(0, HideAttrs)), Gr("a", HB, T({"Person"}), Co(NoCeil)),
         Gr("a", HB, C({0, 1}), CoM(NoCeil, HideName)), Gr("a", HB, AnyScope, CoM(NoCeil, HideAttrs)) }
F2b == { Gr("a", HB, K({"concept"}), Co(2)), Gr("a", HB, AnyScope, Co(1)), Gr("a", HB, E({4}), CoM(NoCeil, HideAttrs)),
         GrG(HB, AnyScope, Co(4)), Gr("a", RB, AnyScope, [Co(NoCeil) EXCEPT !.export = TRUE]) }
F2 == UNION { { Case("two-grants", [Base EXCEPT !.grants = << g1, g2 >>, !.members = {"a"}], <<"a">>),
                Case("two-grants", [Base EXCEPT !.grants = << g2, g1 >>, !.members = {"a"}], <<"a">>) } :
              g1 \in F2a, g2 \in F2b }

(* --- F3: one Delegation a -> b against the delegator's Grant -------------- *)
F3sa == IF Thorough THEN {AnyScope, K({"concept"}), C({0, 1}), E({1, 2, 3})} ELSE {AnyScope, C({0, 1})}
F3ca == IF Thorough THEN {NoCeil, 1, 2} ELSE {NoCeil, 1}
F3sb == IF Thorough THEN {AnyScope, K({"concept"}), C({0}), C({0, 1, 2}), E({1, 2}), E({1, 4})}
        ELSE {AnyScope, K({"concept"}), C({0}), C({0, 1, 2})}
F3cb == IF Thorough THEN {NoCeil, 0, 1, 2, 4} ELSE {NoCeil, 0, 1, 2}
F3 == { Case("delegation", [Base EXCEPT !.grants = << GrD("a", HB, sa, Co(ca)) >>,
                                        !.delegs = << De("a", "b", HB, sb, Co(cb)) >>], <<"a", "b">>) :
          sa \in F3sa, ca \in F3ca, sb \in F3sb, cb \in F3cb }

D0(ce) == De("a", "b", HB, AnyScope, Co(ce))
A0(ce) == GrD("a", HB, AnyScope, Co(ce))
F3b == UNION { {
    Case("deleg-not-allowed", [Base EXCEPT !.grants = << [A0(ce) EXCEPT !.deleg = FALSE] >>, !.delegs = << D0(ce) >>], <<"a", "b">>),
    Case("deleg-revoked", [Base EXCEPT !.grants = << A0(ce) >>, !.delegs = << [D0(ce) EXCEPT !.status = "revoked"] >>], <<"b">>),
    Case("deleg-parent-grant-revoked", [Base EXCEPT !.grants = << [A0(ce) EXCEPT !.status = "revoked"] >>, !.delegs = << D0(ce) >>], <<"a", "b">>),
    Case("deleg-delegator-suspended", [Base EXCEPT !.grants = << A0(ce) >>, !.delegs = << D0(ce) >>, !.pstat["a"] = "suspended"], <<"a", "b">>),
    Case("deleg-delegator-revoked", [Base EXCEPT !.grants = << A0(ce) >>, !.delegs = << D0(ce) >>, !.pstat["a"] = "revoked"], <<"b">>),
    Case("deleg-delegate-suspended", [Base EXCEPT !.grants = << A0(ce) >>, !.delegs = << D0(ce) >>, !.pstat["b"] = "suspended"], <<"a", "b">>),
    Case("deleg-asks-more", [Base EXCEPT !.grants = << [A0(ce) EXCEPT !.acts = {"read", "discover"}] >>, !.delegs = << D0(ce) >>], <<"a", "b">>),
    Case("deleg-from-group-grant", [Base EXCEPT !.grants = << [GrG(HB, AnyScope, Co(ce)) EXCEPT !.deleg = TRUE] >>, !.members = {"a"},
                                               !.delegs = << D0(ce) >>], <<"a", "b">>),
    Case("deleg-from-non-delegable-and-delegable",
         [Base EXCEPT !.grants = << Gr("a", HB, AnyScope, Co(NoCeil)), GrD("a", HB, C({0}), Co(ce)) >>,
                      !.delegs = << De("a", "b", HB, C({0}), Co(ce)), De("a", "c", HB, AnyScope, Co(ce)) >>], <<"a", "b", "c">>),
    Case("deleg-export-widened", [Base EXCEPT !.grants = << A0(ce) >>,
                                             !.delegs = << [D0(ce) EXCEPT !.cons = [Co(ce) EXCEPT !.export = TRUE]] >>], <<"b">>),
    Case("deleg-mask-kept", [Base EXCEPT !.grants = << GrD("a", HB, AnyScope, CoM(ce, HideAttrs)) >>,
                                        !.delegs = << De("a", "b", HB, AnyScope, CoM(ce, HideAttrs)) >>], <<"a", "b">>),
    Case("deleg-mask-dropped", [Base EXCEPT !.grants = << GrD("a", HB, AnyScope, CoM(ce, HideAttrs)) >>,
                                           !.delegs = << D0(ce) >>], <<"a", "b">>),
    Case("deleg-influence-unstated", [Base EXCEPT !.grants = << GrD("a", HB, AnyScope, [Co(ce) EXCEPT !.infl = 1]) >>,
                                                 !.delegs = << D0(ce) >>], <<"a", "b">>),
    Case("deleg-influence-stated", [Base EXCEPT !.grants = << GrD("a", HB, AnyScope, [Co(ce) EXCEPT !.infl = 1]) >>,
                                               !.delegs = << [D0(ce) EXCEPT !.cons = [Co(ce) EXCEPT !.infl = 0]] >>], <<"a", "b">>),
    Case("deleg-from-owner", [Base EXCEPT !.delegs = << De("own", "b", HB, AnyScope, Co(ce)) >>], <<"b">>),
    Case("deleg-from-coowner", [Base EXCEPT !.owners = {"own", "a"}, !.delegs = << De("a", "b", HB, K({"concept"}), Co(ce)) >>], <<"a", "b">>),
    Case("deleg-from-suspended-coowner", [Base EXCEPT !.owners = {"own", "a"}, !.pstat["a"] = "suspended",
                                                     !.delegs = << De("a", "b", HB, K({"concept"}), Co(ce)) >>], <<"a", "b">>),
    Case("deleg-cycle", [Base EXCEPT !.delegs = << De("a", "b", HB, AnyScope, Co(ce)), De("b", "a", HB, AnyScope, Co(ce)) >>], <<"a", "b">>)
  } : ce \in {NoCeil, 1} }
  \cup
  \* time: a child may not outlive its parent; an expired parent window closes the child's too
  { Case("deleg-window", [Base EXCEPT !.grants = << [A0(1) EXCEPT !.cond = Until(pu)] >>,
                                     !.delegs = << [D0(1) EXCEPT !.cond = Until(cu)] >>], <<"a", "b">>) :
      pu \in {0, 5, 20}, cu \in {0, 5, 20, 30} }
  \cup
  { Case("deleg-strength", WithCtx([Base EXCEPT !.grants = << [A0(1) EXCEPT !.cond = [AnyCond EXCEPT !.strength = ps]] >>,
                                               !.delegs = << [D0(1) EXCEPT !.cond = [AnyCond EXCEPT !.strength = cs]] >>],
                                   "b", [Ctx0 EXCEPT !.strength = have]), <<"b">>) :
      ps \in {0, 2}, cs \in {0, 2}, have \in {1, 2} }

(* --- F4: chains a -> b -> c ------------------------------------------------ *)
F4c1 == IF Thorough THEN {NoCeil, 0, 1, 2} ELSE {NoCeil, 1, 2}
F4c2 == IF Thorough THEN {NoCeil, 0, 1, 2, 4} ELSE {NoCeil, 1, 2, 4}
Chain(ca, c1, r1, s2, c2) ==
  [Base EXCEPT !.grants = << GrD("a", HB, AnyScope, Co(ca)) >>,
               !.delegs = << [De("a", "b", HB, AnyScope, Co(c1)) EXCEPT !.redeleg = r1],
                             [De("b", "c", HB, s2, Co(c2)) EXCEPT !.parent = 1] >>]
F4 == { Case("chain", Chain(ca, c1, r1, s2, c2), <<"a", "b", "c">>) :
          ca \in (IF Thorough THEN {NoCeil, 1, 2} ELSE {NoCeil, 2}), c1 \in F4c1, r1 \in BOOLEAN,
          s2 \in (IF Thorough THEN {AnyScope, K({"concept"}), C({0, 1})} ELSE {AnyScope, K({"concept"})}), c2 \in F4c2 }
F4b == UNION { {
    Case("chain-middle-suspended", [Chain(ce, ce, TRUE, AnyScope, ce) EXCEPT !.pstat["b"] = "suspended"], <<"b", "c">>),
    Case("chain-middle-revoked", [Chain(ce, ce, TRUE, AnyScope, ce) EXCEPT !.pstat["b"] = "revoked"], <<"c">>),
    Case("chain-root-suspended", [Chain(ce, ce, TRUE, AnyScope, ce) EXCEPT !.pstat["a"] = "suspended"], <<"b", "c">>),
    Case("chain-first-link-revoked", [Chain(ce, ce, TRUE, AnyScope, ce) EXCEPT !.delegs[1].status = "revoked"], <<"b", "c">>),
    Case("chain-unlinked", [Chain(ce, ce, TRUE, AnyScope, ce) EXCEPT !.delegs[2].parent = 0], <<"b", "c">>),
    Case("chain-wrong-parent", [Chain(ce, ce, TRUE, AnyScope, ce) EXCEPT !.delegs[2].from = "a"], <<"c">>),
    Case("chain-named", WithCtx([Chain(ce, ce, TRUE, AnyScope, ce) EXCEPT
                                    !.grants = << GrD("a", HB, AnyScope, Co(ce)), Gr("c", HB, AnyScope, Co(4)) >>],
                                "c", [Ctx0 EXCEPT !.chain = <<1, 2>>]), <<"c">>),
    Case("chain-named-last-only", WithCtx([Chain(ce, ce, TRUE, AnyScope, ce) EXCEPT
                                    !.grants = << GrD("a", HB, AnyScope, Co(ce)), Gr("c", HB, AnyScope, Co(4)) >>],
                                "c", [Ctx0 EXCEPT !.chain = <<2>>]), <<"c">>),
    Case("chain-named-not-mine", WithCtx([Chain(ce, ce, TRUE, AnyScope, ce) EXCEPT
                                    !.grants = << GrD("a", HB, AnyScope, Co(ce)), Gr("c", HB, AnyScope, Co(4)) >>],
                                "c", [Ctx0 EXCEPT !.chain = <<1>>]), <<"c">>),
    Case("chain-named-no-redelegation", WithCtx([Chain(ce, ce, FALSE, AnyScope, ce) EXCEPT
                                    !.grants = << GrD("a", HB, AnyScope, Co(ce)), Gr("c", HB, AnyScope, Co(4)) >>],
                                "c", [Ctx0 EXCEPT !.chain = <<1, 2>>]), <<"c">>)
  } : ce \in {NoCeil, 2} }

(* --- F5: policy statements ------------------------------------------------- *)
Pol(cfg, sts) == [cfg EXCEPT !.policy = sts]
F5 == { Case("policy-allow", Pol([Base EXCEPT !.members = {"c"}],
                                 << [St("allow", who, grp, HB, sc) EXCEPT !.cons = Co(ce)] >>), <<"a", "b", "c">>) :
          who \in {{}, {"b"}}, grp \in {{}, {"g"}},
          sc \in (IF Thorough THEN {AnyScope, C({0}), K({"concept"}), T({"Person"}), E({1, 4})} ELSE {AnyScope, C({0}), K({"concept"})}),
          ce \in (IF Thorough THEN {NoCeil, 0, 1, 2} ELSE {NoCeil, 1}) }
      \cup
      { Case("policy-deny", Pol([Base EXCEPT !.grants = << Gr("a", HB, AnyScope, Co(gc)), Gr("b", HB, AnyScope, Co(gc)) >>,
                                             !.members = {"a"}],
                                << St("deny", who, grp, acts, sc) >>), <<"a", "b">>) :
          gc \in {NoCeil, 2}, who \in {{}, {"a"}}, grp \in {{}, {"g"}},
          acts \in (IF Thorough THEN {{}, {"read"}, {"search"}, {"read_history", "export"}} ELSE {{}, {"read"}, {"search"}}),
          sc \in (IF Thorough THEN {AnyScope, C({4}), E({2}), K({"proposition"}), T({"Preference"})} ELSE {AnyScope, C({4}), E({2})}) }
      \cup
      { Case("policy-deny-expired", Pol([Base EXCEPT !.grants = << G0(NoCeil) >>],
                                        << [St("deny", {"a"}, {}, {"read"}, AnyScope) EXCEPT !.cond = Until(u)] >>), <<"a">>) :
          u \in {5, 20} }
      \cup
      { Case("policy-deny-owner", Pol(Base, << St("deny", who, {}, {"read"}, AnyScope) >>), <<"own">>) :
          who \in {{}, {"own"}, {"a"}} }
      \cup
      { Case("policy-deny-delegator-only",
             Pol([Base EXCEPT !.grants = << A0(ce) >>, !.delegs = << D0(ce) >>], << St("deny", {"a"}, {}, {"read"}, AnyScope) >>),
             <<"a", "b">>) : ce \in {NoCeil, 1} }
      \cup
      { Case("policy-allow-and-deny", Pol(Base, << St("allow", {}, {}, HB, AnyScope), St("deny", {"b"}, {}, {}, AnyScope),
                                                   [St("allow", {"c"}, {}, HB, AnyScope) EXCEPT !.cons = CoM(NoCeil, HideAttrs)] >>),
             <<"a", "b", "c">>) }

(* --- F6: owners -------------------------------------------------------------- *)
F6 == { Case("coowner", [Base EXCEPT !.owners = {"own", "a"}], <<"a", "b">>),
        Case("coowner-suspended", [Base EXCEPT !.owners = {"own", "a"}, !.pstat["a"] = "suspended"], <<"a">>),
        Case("coowner-and-masked-grant", [Base EXCEPT !.owners = {"own", "a"},
                                                      !.grants = << Gr("a", HB, AnyScope, CoM(0, HideAttrs)) >>], <<"a">>),
        Case("nothing", Base, <<"a">>) }

(* --- F7: the population whose best text matches are hidden ----------------- *)
F7 == { [Case("search-window", [Base EXCEPT !.grants = << Gr("a", HB, AnyScope, Co(ce)) >>], <<"a">>) EXCEPT !.pop = "B"] :
          ce \in {0, 1, 4} }

(* --- F8: writers: no command of a session changes the control plane --------- *)
F8 == { [Case("writer", [Base EXCEPT !.grants = << Gr("a", WB, sc, Co(ce)) >>,
                                     !.delegs = << De("own", "b", WB, AnyScope, Co(NoCeil)) >>], <<"a", "b">>) EXCEPT !.mut = TRUE] :
          sc \in {AnyScope, K({"concept"})}, ce \in {NoCeil, 2} }

(* --- F9 (thorough): a Grant combined with a policy statement; masks through a Delegation --- *)
F9 == IF ~Thorough THEN {} ELSE
      { Case("grant-and-deny", Pol([Base EXCEPT !.grants = << Gr("a", HB, sa, Co(ca)) >>],
                                   << St("deny", {"a"}, {}, {"read"}, sd) >>), <<"a">>) :
          sa \in Scopes, ca \in {NoCeil, 1}, sd \in {C({4}), E({2}), K({"proposition"})} }
      \cup
      { Case("grant-and-allow", Pol([Base EXCEPT !.grants = << Gr("a", HB, sa, Co(ca)) >>],
                                    << [St("allow", {}, {}, HB, sp) EXCEPT !.cons = Co(cp)] >>), <<"a", "b">>) :
          sa \in Scopes, ca \in {NoCeil, 1}, sp \in {C({0}), K({"concept"})}, cp \in {NoCeil, 0} }
      \cup
      { Case("deleg-masks", [Base EXCEPT !.grants = << GrD("a", HB, AnyScope, CoM(ca, pm)) >>,
                                         !.delegs = << De("a", "b", HB, AnyScope, CoM(cb, cm)) >>], <<"a", "b">>) :
          ca \in {NoCeil, 1}, cb \in {NoCeil, 1}, pm \in {{}, HideAttrs}, cm \in {{}, HideAttrs, HideName} }

CaseSeq == S(F9) \o S(F1) \o S(F1b) \o S(F2) \o S(F3) \o S(F3b) \o S(F4) \o S(F4b) \o S(F5) \o S(F6) \o S(F7) \o S(F8)
NCases == Len(CaseSeq)

Init == ci = 0 /\ chunk \in 0..(NChunks - 1)
Next == /\ ci = 0
        /\ ci' \in {i \in 1..NCases : i % NChunks = chunk}
        /\ UNCHANGED chunk
Spec == Init /\ [][Next]_vars

kase == CaseSeq[ci]
thePop == PopOf(kase.pop)

\* one record per element, in population order
\* per element, NOT gated by the `read` gate: SEARCH / EXPORT / HISTORY pass their own gates and then read element by element
ViewOf(cfg, p) ==
  [i \in 1..Len(thePop) |->
     \* r0: the decision on the element as it was written, before it was classified (the governance block a
     \* read AS OF its creation finds; used only to attribute a mismatch of such a read, never as the oracle)
     LET r0 == MayRead(cfg, p, [thePop[i] EXCEPT !.cls = -1]) IN
     IF MayRead(cfg, p, thePop[i])
     THEN [r |-> TRUE, mask |-> MaskOf(cfg, p, thePop[i]), r0 |-> r0]
     ELSE [r |-> FALSE, mask |-> {}, r0 |-> r0]]

Expect(cfg, p) ==
  [p |-> p,
   ok |-> Resolved(cfg, p).ok,
   held |-> Held(cfg, p, Interesting),
   whole |-> Whole(cfg, p) /\ Permitted(cfg, p, "read", SpaceRes),
   view |-> ViewOf(cfg, p)]

Out == [n |-> ci, fam |-> kase.fam, pop |-> kase.pop, mut |-> kase.mut, cfg |-> kase.cfg,
        elems |-> thePop,
        expect |-> [k \in 1..Len(kase.eval) |-> Expect(kase.cfg, kase.eval[k])]]

LawsHold == ci > 0 => Laws(kase.cfg, All, thePop)
\* the same laws one by one, so that a violation names the law
LDefaultDeny == ci > 0 => \A p \in All : DefaultDeny(kase.cfg, p, thePop)
LInactive    == ci > 0 => \A p \in All : Inactive(kase.cfg, p, thePop)
LDenyWins    == ci > 0 => \A p \in All : DenyWins(kase.cfg, p, thePop)
LRevoked     == ci > 0 => \A p \in All : RevokedIsAbsent(kase.cfg, p, thePop)
LExpired     == ci > 0 => \A p \in All : ExpiredIsAbsent(kase.cfg, p, thePop)
LWhole       == ci > 0 => \A p \in All : WholeReadsAll(kase.cfg, p, thePop)
LAttenuation == ci > 0 => Attenuation(kase.cfg, thePop)
Emit == ci > 0 => PrintT(<<"REPLAY", ToJson(Out)>>)
=============================================================================
