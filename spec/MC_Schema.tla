----------------------------- MODULE MC_Schema -----------------------------
(***************************************************************************)
(* Direction R for C13.  TLC enumerates, from Schema.tla,                  *)
(*   fam "ax"   the numeric fact tables the semantics rests on             *)
(*   fam "val"  FieldTypes to nesting depth 4 x (values generated from the *)
(*              type + every single mutation of chosen valid values) with  *)
(*              the verdicts of the two write paths, the in-memory form,   *)
(*              the stored shape and the declared variant to be read back  *)
(*   fam "bud"  values at the edges of the complexity budget               *)
(*   fam "upg"  upgrade chains (every history of a field over K versions:  *)
(*              absent / each variant, so add, remove, re-add, nested keys *)
(*              gained and lost) with documents written at every version   *)
(*              and the expected result of reading them at every later one *)
(*   fam "der"  derive-macro structs: Rust type -> FieldType and rows of   *)
(*              boundary values                                            *)
(* one REPLAY line per case; harness/src/bin/drive_schema.rs replays them  *)
(* on anda_db_schema through its public API.  The invariant Laws checks    *)
(* the oracle against itself (the property, stated on the specification).  *)
(***************************************************************************)
EXTENDS Schema, Json, TLC

CONSTANTS Tier,  \* "quick" | "thorough"
          Fams   \* the case families to enumerate, a subset of {"ax", "val", "bud", "upg", "der"}
Quick == Tier = "quick"

T(x) == <<x>>
KT(s) == <<"text", s>>
Opt(t) == <<"option", t>>
Hom(t) == <<"array", <<t>>>>
Keyed(es) == <<"map", es>>
WildT(t) == <<"map", << <<TextWild, t>> >>>>
WildI(t) == <<"map", << <<I64Wild, t>> >>>>
WildB(t) == <<"map", << <<BytesWild, t>> >>>>
AnyArr == <<"array", <<>>>>
AnyMap == <<"map", <<>>>>
U(a) == <<"u64", a>>
I(a) == <<"i64", a>>
Tx(s) == <<"text", s>>
Arr(s) == <<"array", s>>
Mp(s) == <<"map", s>>

Scalars == << T("bool"), T("i64"), T("u64"), T("f64"), T("f32"), T("bytes"), T("text"), T("json"), T("vector") >>
L0 == Scalars \o <<AnyArr, AnyMap>>

\* the composite constructors applied to every type of a sequence
ConsAll(B) ==
     Mat([i \in 1..Len(B) |-> Opt(B[i])])
  \o Mat([i \in 1..Len(B) |-> Hom(B[i])])
  \o Mat([i \in 1..Len(B) |-> <<"array", <<B[i], T("u64")>>>>])
  \o Mat([i \in 1..Len(B) |-> <<"array", <<T("text"), B[i]>>>>])
  \o Mat([i \in 1..Len(B) |-> WildT(B[i])])
  \o Mat([i \in 1..Len(B) |-> Keyed(<< <<KT("a"), B[i]>>, <<KT("b"), Opt(B[i])>> >>)])
ConsFew(B) ==
     Mat([i \in 1..Len(B) |-> WildI(B[i])])
  \o Mat([i \in 1..Len(B) |-> WildB(B[i])])
ConsOuter(B) ==
     Mat([i \in 1..Len(B) |-> Opt(B[i])])
  \o Mat([i \in 1..Len(B) |-> Hom(B[i])])
  \o Mat([i \in 1..Len(B) |-> <<"array", <<T("text"), B[i]>>>>])
  \o Mat([i \in 1..Len(B) |-> WildT(B[i])])
  \o Mat([i \in 1..Len(B) |-> Keyed(<< <<KT("a"), B[i]>>, <<KT("b"), Opt(B[i])>> >>)])

Special ==
  << <<"array", <<T("i64"), T("f32"), T("vector")>>>>,                                     \* 3-tuple of the read-back sensitive leaves
     Keyed(<< <<TextWild, T("u64")>>, <<KT("a"), T("text")>> >>),                        \* "*" next to another key: NOT a wildcard
     Keyed(<< <<KT("a"), T("u64")>> >>),                                                  \* one ordinary key: NOT a wildcard
     Keyed(<< <<<<"i64", "1">>, T("text")>>, <<<<"i64", "-1">>, Opt(T("i64"))>> >>),      \* integer keys
     Keyed(<< <<<<"bytes", <<"1">>>>, T("bytes")>>, <<KT("a"), T("json")>> >>),           \* mixed key variants, required Json key
     Opt(Opt(T("i64"))),
     Keyed(<< <<KT("j"), T("json")>>, <<KT("o"), Opt(T("json"))>> >>) >>

Sens  == << T("i64"), T("f32"), T("json"), T("vector"), T("text") >>
Tiny  == << T("i64"), T("json") >>
Mid   == << T("i64"), T("f32"), T("json"), T("vector"), T("text"), T("bytes"), T("u64") >>

D2 == ConsAll(L0) \o ConsFew(Sens) \o Special
D3 == ConsAll(ConsAll(IF Quick THEN Sens ELSE L0))
D4 == ConsOuter(ConsOuter(ConsAll(IF Quick THEN Tiny ELSE Mid)))
TypeSeq == L0 \o D2 \o D3 \o D4
NT == Len(TypeSeq)

---------------------------------------------------------------------------
(* Valid values generated from the type.                                   *)
Pick(s, k) == s[((k - 1) % Len(s)) + 1]
JVals == << <<"jnull">>, <<"jbool", TRUE>>, <<"ju64", "0">>, <<"ju64", "u64max">>, <<"ji64", "i64min">>, <<"jf64", "1.5">>,
            <<"jf64", "-0.0">>, <<"jf64", "f64sub">>, <<"jstr", "b64:AQID">>,
            <<"jarr", << <<"ju64", "1">>, <<"ji64", "-1">>, <<"jstr", "x">>, <<"jnull">> >>>>,
            <<"jobj", << <<"k", <<"jarr", << <<"jf64", "2.71">> >>>>>>, <<"n", <<"jobj", << <<"z", <<"jnull">>>> >>>>>> >>>> >>

RECURSIVE Vals(_)
Vals(t) ==
  CASE t[1] = "bool"   -> << <<"bool", TRUE>>, <<"bool", FALSE>> >>
    [] t[1] = "i64"    -> << I("i64min"), I("-1"), I("0"), I("i64max"), U("1"), U("i64max") >>
    [] t[1] = "u64"    -> << U("0"), U("i64max+1"), U("u64max") >>
    [] t[1] = "f64"    -> Mat([i \in 1..(Len(F64Atoms) - 1) |-> <<"f64", F64Atoms[i]>>])
    [] t[1] = "f32"    -> Mat([i \in 1..(Len(F32Atoms) - 1) |-> <<"f32", F32Atoms[i]>>])
                          \o << <<"f64", "2.71">>, <<"f64", "2.71f">>, <<"f64", "-0.0">>, <<"f64", "f32sub">>, <<"f64", "inf">> >>
    [] t[1] = "bytes"  -> << <<"bytes", <<>>>>, <<"bytes", <<"0", "255">>>>, <<"bytes", <<"42">>>> >>
    [] t[1] = "text"   -> << Tx(""), Tx("a"), Tx("*"), Tx("b64:AQID") >>
    [] t[1] = "json"   -> Mat([i \in 1..Len(JVals) |-> <<"json", JVals[i]>>])
    [] t[1] = "vector" -> << <<"vector", <<>>>>, <<"vector", <<"0", "32768", "32704", "65535", "32640", "65408", "1">>>>,
                             Arr(<< U("0"), U("65535") >>) >>
    [] t[1] = "option" -> <<Null>> \o Vals(t[2])
    [] t[1] = "array"  ->
         LET ts == t[2] IN
         CASE Len(ts) = 0 -> << Arr(<<>>), Arr(<< U("1"), Tx("a"), Arr(<< <<"bool", TRUE>> >>) >>),
                                 Arr(<< I("1"), I("-1"), <<"f32", "1.5">>, <<"vector", <<"1">>>>, <<"json", JVals[10]>>, Null >>) >>
           [] Len(ts) = 1 -> LET vs == Vals(ts[1]) IN
                             << Arr(<<>>) >> \o Mat([i \in 1..Len(vs) |-> Arr(<<vs[i]>>)]) \o << Arr(<<vs[1], vs[Len(vs)]>>) >>
           [] OTHER       -> LET vss == Mat([j \in 1..Len(ts) |-> Vals(ts[j])])
                                 n == MaxF(Mat([j \in 1..Len(ts) |-> Len(vss[j])]), Len(ts))
                             IN Mat([k \in 1..n |-> Arr(Mat([j \in 1..Len(ts) |-> Pick(vss[j], k)]))])
    [] t[1] = "map"    ->
         LET es == t[2] IN
         CASE Len(es) = 0 -> << Mp(<<>>), Mp(<< <<KT("a"), U("1")>>, <<KT("b"), Mp(<< <<<<"i64", "-1">>, <<"bool", FALSE>>>> >>)>> >>),
                                 Mp(<< <<<<"i64", "1">>, <<"f32", "1.5">>>>, <<<<"bytes", <<"1">>>>, I("1")>>, <<KT("v"), <<"vector", <<"1">>>>>> >>) >>
           [] IsWild(es)  -> LET vs == Vals(es[1][2])
                                 k1 == IF es[1][1][1] = "text" THEN KT("k") ELSE IF es[1][1][1] = "i64" THEN <<"i64", "-1">> ELSE <<"bytes", <<>>>>
                                 k2 == es[1][1]            \* the sentinel itself is a legal key
                             IN << Mp(<<>>) >> \o Mat([i \in 1..Len(vs) |-> Mp(<< <<k1, vs[i]>> >>)]) \o << Mp(<< <<k1, vs[1]>>, <<k2, vs[Len(vs)]>> >>) >>
           [] OTHER       -> LET vss == Mat([j \in 1..Len(es) |-> Vals(es[j][2])])
                                 n == MaxF(Mat([j \in 1..Len(es) |-> Len(vss[j])]), Len(es))
                                 \* keys whose type validates Null may be left out
                                 req == SelectSeq(Mat([j \in 1..Len(es) |-> j]), LAMBDA j : ~VI(es[j][2], Null))
                             IN Mat([k \in 1..n |-> Mp(Mat([j \in 1..Len(es) |-> <<es[j][1], Pick(vss[j], k)>>]))])
                                \o << Mp(Mat([x \in 1..Len(req) |-> <<es[req[x]][1], vss[req[x]][1]>>])) >>

---------------------------------------------------------------------------
(* Single mutations of a value, blind to the type: the specification says  *)
(* which of them are still valid.                                          *)
Aliens ==
  << Null, <<"bool", TRUE>>, I("-1"), U("0"), U("65536"), U("i64max+1"), <<"f64", "1.5">>, <<"f64", "2.7100000000001">>,
     <<"f64", "1e39">>, <<"f64", "nan">>, <<"f32", "1.5">>, <<"f32", "nan">>, Tx("x"), <<"bytes", <<"1">>>>,
     <<"json", <<"jobj", << <<"a", <<"ju64", "1">>>> >>>>>>, <<"vector", <<"1">>>>,
     Arr(<<>>), Arr(<< U("0") >>), Arr(<< Tx("x"), U("1") >>), Arr(<< U("0"), U("255") >>),
     Mp(<<>>), Mp(<< <<KT("a"), U("0")>> >>), Mp(<< <<<<"i64", "1">>, U("0")>> >>) >>
ReKey(k) == IF k[1] = "text" THEN <<"i64", "256">> ELSE KT("rk")

RECURSIVE Muts(_, _)
Muts(v, d) ==
  Aliens
  \o (IF v[1] = "array" THEN
        LET s == v[2] n == Len(s) IN
           << Arr(Append(s, IF n = 0 THEN U("0") ELSE s[n])) >>
        \o (IF n > 0 THEN << Arr(Front(s)) >> ELSE <<>>)
        \o (IF d > 0 THEN FlattenSeq(Mat([i \in 1..n |-> LET ms == Muts(s[i], d - 1)
                                                      IN Mat([k \in 1..Len(ms) |-> Arr(ReplaceAt(s, i, ms[k]))])]))
            ELSE <<>>)
      ELSE IF v[1] = "map" THEN
        LET s == v[2] n == Len(s) IN
           << Mp(Append(s, <<KT("zz"), IF n = 0 THEN U("0") ELSE s[1][2]>>)) >>
        \o Mat([i \in 1..n |-> Mp(RemoveAt(s, i))])
        \o (IF n > 0 THEN << Mp(ReplaceAt(s, 1, <<ReKey(s[1][1]), s[1][2]>>)) >> ELSE <<>>)
        \o (IF d > 0 THEN FlattenSeq(Mat([i \in 1..n |-> LET ms == Muts(s[i][2], d - 1)
                                                      IN Mat([k \in 1..Len(ms) |-> Mp(ReplaceAt(s, i, <<s[i][1], ms[k]>>))])]))
            ELSE <<>>)
      ELSE <<>>)

\* the valid values that get mutated: the second, the middle and the last (the richest) one
Bases(vs) == LET n == Len(vs) IN
             IF n <= 2 THEN vs ELSE IF Quick THEN << vs[2], vs[n] >> ELSE << vs[2], vs[(n \div 2) + 1], vs[n] >>
MutDepth == 3
CasesOf(t) ==
  LET vs == Vals(t) bs == Bases(vs) IN
     Mat([i \in 1..Len(vs) |-> <<"valid", vs[i]>>])
  \o FlattenSeq(Mat([b \in 1..Len(bs) |-> LET ms == Muts(bs[b], MutDepth) IN Mat([k \in 1..Len(ms) |-> <<"mut", ms[k]>>])]))
ValCases == Mat([i \in 1..NT |-> CasesOf(TypeSeq[i])])

---------------------------------------------------------------------------
(* Budget edges.                                                           *)
RECURSIVE Nest(_, _), JNest(_, _)
Nest(n, e) == IF n = 0 THEN e ELSE Arr(<<Nest(n - 1, e)>>)
JNest(n, e) == IF n = 0 THEN e ELSE <<"jarr", <<JNest(n - 1, e)>>>>
Rep(n, e) == <<"rep", n, e>>
\* deep nests are EMITTED compressed (<<"nest",n,e>> = n single-element arrays around e) and expanded for evaluation
NestC(n, e) == <<"nest", n, e>>
JNestC(n, e) == <<"jnest", n, e>>
RECURSIVE Expand(_)
Expand(v) ==
  CASE v[1] = "nest"  -> Nest(v[2], Expand(v[3]))
    [] v[1] = "array" -> Arr(Mat([i \in 1..Len(v[2]) |-> Expand(v[2][i])]))
    [] v[1] = "map"   -> Mp(Mat([i \in 1..Len(v[2]) |-> <<v[2][i][1], Expand(v[2][i][2])>>]))
    [] v[1] = "json"  -> IF v[2][1] = "jnest" THEN <<"json", JNest(v[2][2], v[2][3])>> ELSE v
    [] OTHER -> v
BudCases ==
  << <<AnyArr, Rep(4096, U("0"))>>, <<AnyArr, Rep(4097, U("0"))>>,
     <<Hom(T("u64")), Rep(4096, U("1"))>>, <<Hom(T("u64")), Rep(4097, U("1"))>>,
     <<Hom(Hom(T("u64"))), Rep(4, Rep(4094, U("1")))>>, <<Hom(Hom(T("u64"))), Rep(4, Rep(4095, U("1")))>>,
     <<Hom(Hom(T("u64"))), Arr(<< Rep(4096, U("1")), Rep(4096, U("1")), Rep(4096, U("1")), Rep(4091, U("1")) >>)>>,
     <<Hom(Hom(T("u64"))), Arr(<< Rep(4096, U("1")), Rep(4096, U("1")), Rep(4096, U("1")), Rep(4092, U("1")) >>)>>,
     <<Opt(Hom(T("text"))), Rep(4097, Tx("a"))>>,
     <<AnyArr, NestC(64, U("0"))>>, <<AnyArr, NestC(65, U("0"))>>, <<AnyArr, NestC(66, Tx("a"))>>,
     <<AnyMap, Mp(<< <<KT("a"), NestC(63, U("0"))>> >>)>>, <<AnyMap, Mp(<< <<KT("a"), NestC(64, U("0"))>> >>)>>,
     <<T("json"), <<"json", JNestC(63, <<"ju64", "0">>)>>>>, <<T("json"), <<"json", JNestC(64, <<"ju64", "0">>)>>>>,
     <<T("json"), NestC(64, U("0"))>>, <<T("json"), NestC(65, U("0"))>>,
     <<T("json"), <<"json", <<"jrep", 4096, <<"jbool", TRUE>>>>>>>>, <<T("json"), <<"json", <<"jrep", 4097, <<"jbool", TRUE>>>>>>>>,
     <<T("json"), <<"json", <<"jorep", 4096, <<"jnull">>>>>>>>, <<T("json"), <<"json", <<"jorep", 4097, <<"jnull">>>>>>>>,
     <<T("json"), <<"json", <<"jrep", 4, <<"jrep", 4095, <<"ju64", "1">>>>>>>>>>,
     <<AnyMap, <<"mrep", 4096, U("0")>>>>, <<AnyMap, <<"mrep", 4097, U("0")>>>>,
     <<WildT(T("u64")), <<"mrep", 4096, U("0")>>>>, <<WildT(T("u64")), <<"mrep", 4097, U("0")>>>>,
     <<WildT(Hom(T("u64"))), <<"mrep", 4, Rep(4094, U("0"))>>>>, <<WildT(Hom(T("u64"))), <<"mrep", 4, Rep(4095, U("0"))>>>>,
     <<Keyed(<< <<KT("a"), Hom(T("u64"))>>, <<KT("b"), Opt(T("text"))>> >>), Mp(<< <<KT("a"), Rep(4097, U("0"))>> >>)>>,
     <<Keyed(<< <<KT("a"), Hom(T("u64"))>>, <<KT("b"), Opt(T("text"))>> >>), Mp(<< <<KT("a"), Rep(4096, U("0"))>> >>)>> >>
NB == Len(BudCases)

---------------------------------------------------------------------------
(* Upgrade chains.                                                         *)
NP   == Keyed(<< <<KT("p"), T("text")>> >>)
NPQt == Keyed(<< <<KT("p"), T("text")>>, <<KT("q"), Opt(T("text"))>> >>)
NPQu == Keyed(<< <<KT("p"), T("text")>>, <<KT("q"), Opt(T("u64"))>> >>)
NPQi == Keyed(<< <<KT("p"), T("text")>>, <<KT("q"), Opt(T("i64"))>> >>)
IS   == Keyed(<< <<KT("s"), T("text")>> >>)
ISN  == Keyed(<< <<KT("note"), Opt(T("text"))>>, <<KT("s"), T("text")>> >>)
ISO  == Keyed(<< <<KT("o"), Opt(T("i64"))>>, <<KT("s"), T("text")>> >>)
MpP(x)     == Mp(<< <<KT("p"), Tx(x)>> >>)
MpPQ(x, q) == Mp(<< <<KT("p"), Tx(x)>>, <<KT("q"), q>> >>)
MpS(x)     == Mp(<< <<KT("s"), Tx(x)>> >>)
MpSN(x, n) == Mp(<< <<KT("note"), n>>, <<KT("s"), Tx(x)>> >>)
MpSO(x, o) == Mp(<< <<KT("o"), o>>, <<KT("s"), Tx(x)>> >>)
None == <<"none">>       \* "leave the field out of the document"

\* per field: the variants <<type, full value, minimal value>>; history digit 0 = field absent
FieldPool ==
  [ b |-> << <<Opt(T("u64")), U("1"), None>>, <<Opt(T("i64")), I("-1"), Null>>, <<T("u64"), U("u64max"), U("0")>> >>,
    n |-> << <<NP, MpP("x"), MpP("")>>, <<NPQt, MpPQ("x", Tx("y")), MpP("x")>>, <<NPQu, MpPQ("x", U("u64max")), MpPQ("x", Null)>>,
             <<NPQi, MpPQ("x", I("-1")), MpPQ("x", I("1"))>>, <<Opt(NPQt), MpPQ("x", Tx("y")), Null>> >>,
    t |-> << <<Opt(Hom(IS)), Arr(<< MpS("x"), MpS("y") >>), Arr(<<>>)>>,
             <<Opt(Hom(ISO)), Arr(<< MpSO("x", I("-1")), MpS("y") >>), Arr(<< MpSO("x", I("1")) >>)>>,
             <<Opt(<<"array", <<T("text"), ISO>>>>), Arr(<< Tx("h"), MpSO("x", I("i64min")) >>), Arr(<< Tx("h"), MpS("x") >>)>>,
             <<Opt(<<"array", <<T("text"), IS>>>>), Arr(<< Tx("h"), MpS("x") >>), None>> >>,
    w |-> << <<Opt(WildT(IS)), Mp(<< <<KT("k1"), MpS("x")>>, <<KT("k2"), MpS("y")>> >>), Mp(<<>>)>>,
             <<Opt(WildT(ISN)), Mp(<< <<KT("k1"), MpSN("x", Tx("n"))>>, <<KT("k2"), MpS("y")>> >>), Mp(<< <<KT("k1"), MpSN("x", Null)>> >>)>>,
             <<WildT(ISN), Mp(<< <<KT("k1"), MpSN("x", Tx("n"))>> >>), Mp(<<>>)>>,
             <<Opt(WildI(ISN)), Mp(<< <<<<"i64", "-1">>, MpSN("x", Tx("n"))>> >>), None>>,
             <<Opt(Hom(WildT(Opt(ISN)))), Arr(<< Mp(<< <<KT("k1"), MpSN("x", Tx("n"))>>, <<KT("k2"), Null>> >>) >>), Arr(<< Mp(<<>>) >>)>>,
             <<Opt(Hom(WildT(Opt(IS)))), Arr(<< Mp(<< <<KT("k1"), MpS("x")>>, <<KT("k2"), Null>> >>) >>), None>> >> ]
FNames == <<"b", "n", "t", "w">>          \* name order; "a" (Text, always there) sorts first
K == IF Quick THEN 3 ELSE 4

RECURSIVE Pow(_, _)
Pow(b, e) == IF e = 0 THEN 1 ELSE b * Pow(b, e - 1)
Digit(h, base, k) == (h \div Pow(base, k - 1)) % base
\* a history of field f: for every version the variant number (0 absent)
Hist(f, h, len) == Mat([k \in 1..len |-> Digit(h, Len(FieldPool[f]) + 1, k)])
NHist(f, len) == Pow(Len(FieldPool[f]) + 1, len)

\* chains: <<vers, hists>> with hists a function field -> history
Absent(len) == Mat([k \in 1..len |-> 0])
Single(f, h, len) == [g \in {"b", "n", "t", "w"} |-> IF g = f THEN Hist(f, h, len) ELSE Absent(len)]
Vers(len) == Mat([k \in 1..len |-> k])
SingleChains(f) == Mat([h \in 1..NHist(f, K) |-> <<Vers(K), Single(f, h - 1, K)>>])
KP == IF Quick THEN 2 ELSE 3
PairChains(f, g) ==
  FlattenSeq(Mat([h1 \in 1..NHist(f, KP) |-> Mat([h2 \in 1..NHist(g, KP) |->
     <<Vers(KP), [x \in {"b", "n", "t", "w"} |-> IF x = f THEN Hist(f, h1 - 1, KP)
                                                  ELSE IF x = g THEN Hist(g, h2 - 1, KP) ELSE Absent(KP)]>>])]))
VerChains == << << <<1, 1>>, Single("b", 0, 2)>>, << <<2, 1>>, Single("b", 0, 2)>>, << <<0, 5, 5>>, Single("b", 5, 3)>> >>
Chains == SingleChains("b") \o SingleChains("n") \o SingleChains("t") \o SingleChains("w")
          \o PairChains("b", "n") \o PairChains("n", "w") \o (IF Quick THEN <<>> ELSE PairChains("t", "w")) \o VerChains
\* chains given by their declarations: the unique flag (must not change; a new optional field may be unique)
FA(u) == <<"a", T("text"), u>>
DA == <<"a", Tx("x")>>
\* <<versions, declarations, documents <<version, <<name, value>>..>> >>
ExplicitChains ==
  << << <<1, 2>>, << << FA(FALSE), <<"b", Opt(T("u64")), FALSE>> >>, << FA(FALSE), <<"b", Opt(T("u64")), TRUE>> >> >>, << <<1, <<DA>>>> >> >>,
     << <<1, 2>>, << << FA(FALSE), <<"b", Opt(T("u64")), TRUE>> >>, << FA(FALSE), <<"b", Opt(T("u64")), FALSE>> >> >>, << <<1, <<DA>>>> >> >>,
     << <<1, 2, 3>>, << << FA(FALSE) >>, << FA(FALSE), <<"u", Opt(T("text")), TRUE>> >>,
                        << FA(FALSE), <<"b", Opt(NP), FALSE>>, <<"u", Opt(T("text")), TRUE>> >> >>,
        << <<1, <<DA>>>>, <<2, <<DA, <<"u", Tx("k")>>>>>>, <<3, <<DA, <<"b", MpP("x")>>, <<"u", Null>>>>>> >> >>,
     << <<1, 2>>, << << FA(TRUE) >>, << FA(FALSE) >> >>, << <<1, <<DA>>>> >> >>,
     \* an untyped map (accepts anything) becomes a struct with an optional key the stored value already uses otherwise
     << <<1, 7>>, << << FA(FALSE), <<"n", Keyed(<<>>), FALSE>> >>, << FA(FALSE), <<"n", Keyed(<< <<KT("p"), Opt(T("text"))>> >>), FALSE>> >> >>,
        << <<1, <<DA, <<"n", Mp(<< <<KT("p"), U("1")>> >>)>>>>>>, <<1, <<DA, <<"n", Mp(<< <<KT("p"), Tx("x")>>, <<KT("z"), U("1")>> >>)>>>>>>,
           <<1, <<DA, <<"n", Mp(<<>>)>>>>>> >> >> >>
NCh == Len(Chains)
NC == NCh + Len(ExplicitChains)

\* the declaration of version k of a chain: "a" then the present fields in name order
DeclOf(hists, k) ==
  << <<"a", T("text"), FALSE>> >>
  \o FlattenSeq(Mat([x \in 1..Len(FNames) |-> LET f == FNames[x] d == hists[f][k]
                                          IN IF d = 0 THEN <<>> ELSE << <<f, FieldPool[f][d][1], FALSE>> >>]))
\* the document written at version k: <<name, value>>; which = 2 full, 3 minimal
DocOf(hists, k, which) ==
  << <<"a", Tx("x")>> >>
  \o FlattenSeq(Mat([x \in 1..Len(FNames) |-> LET f == FNames[x] d == hists[f][k]
                                          IN IF d = 0 \/ FieldPool[f][d][which][1] = "none" THEN <<>>
                                             ELSE << <<f, FieldPool[f][d][which]>> >>]))

RECURSIVE Schemas(_, _, _)
Schemas(D, V, acc) ==
  LET i == Len(acc) + 1 IN
  IF i > Len(D) THEN acc
  ELSE IF i = 1 THEN Schemas(D, V, <<Build(D[1], V[1])>>)
  ELSE IF CanUpgrade(D[i], V[i], acc[i - 1]) THEN Schemas(D, V, Append(acc, Upgrade(D[i], V[i], acc[i - 1])))
  ELSE acc

IdxDoc(s, doc) == Mat([i \in 1..Len(doc) |-> <<s.fields[FindName(s.fields, doc[i][1])][4], doc[i][2]>>])
\* what the property promises for a document written (canonical) under schema s and read under schema r:
\* the fields whose idx r still declares, with the keys r no longer declares dropped, nothing else touched
Promise(r, idoc) ==
  LET kept == SelectSeq(idoc, LAMBDA e : FindIdx(r.fields, e[1]) # 0)
  IN <<"ok", Mat([i \in 1..Len(kept) |-> <<kept[i][1], Prune(r.fields[FindIdx(r.fields, kept[i][1])][2], kept[i][2])>>])>>

UpgCase(c) ==
  LET expl == c > NCh
      vers == IF expl THEN ExplicitChains[c - NCh][1] ELSE Chains[c][1]
      hists == IF expl THEN Single("b", 0, Len(vers)) ELSE Chains[c][2]
      len == Len(vers)
      D == IF expl THEN ExplicitChains[c - NCh][2] ELSE Mat([k \in 1..len |-> DeclOf(hists, k)])
      S == Schemas(D, vers, <<>>)
      np == Len(S)
      docs == IF expl THEN SelectSeq(ExplicitChains[c - NCh][3], LAMBDA d : d[1] <= np)
              ELSE FlattenSeq(Mat([k \in 1..np |-> << <<k, DocOf(hists, k, 2)>>, <<k, DocOf(hists, k, 3)>> >>]))
      reads == FlattenSeq(Mat([d \in 1..Len(docs) |->
                 LET k == docs[d][1] idoc == IdxDoc(S[k], docs[d][2])
                 IN Mat([x \in 1..(np - k + 1) |-> LET j == k + x - 1 got == ReadDoc(S[j], StoredDoc(idoc))
                                                 IN [doc |-> d, at |-> j, expect |-> got, law |-> got = Promise(S[j], idoc)]])]))
  IN [fam |-> "upg", c |-> c, vers |-> vers, decls |-> D, schemas |-> Mat([k \in 1..np |-> <<S[k].next, Mat([i \in 1..Len(S[k].fields) |-> <<S[k].fields[i][1], S[k].fields[i][4]>>])>>]),
      permitted |-> np, docs |-> docs, reads |-> reads,
      written_valid |-> \A d \in 1..Len(docs) : \A i \in 1..Len(docs[d][2]) :
                          LET s == S[docs[d][1]] t == s.fields[FindName(s.fields, docs[d][2][i][1])][2] v == docs[d][2][i][2]
                          IN FieldValid(t, v) /\ Norm(t, v) = v /\ Canon(t, v) = v]

---------------------------------------------------------------------------
(* Derive-macro structs (mirrored by hand in drive_schema.rs).             *)
R(x) == <<x>>
ROpt(r) == <<"opt", r>>
RVec(r) == <<"vec", r>>
RMap(k, r) == <<"rmap", k, r>>
Leaf  == <<"struct", << <<"id", R("i64")>>, <<"w", ROpt(R("f32"))>> >>>>
Inner == <<"struct", << <<"leaf", ROpt(Leaf)>>, <<"name", R("string")>>, <<"ratio", R("f32")>>, <<"score", ROpt(R("i64"))>>,
                        <<"tags", RVec(R("string"))>> >>>>
Structs ==
  << [name |-> "Scalars", fields |->
        << <<"bbuf", R("bytebuf")>>, <<"blob", RVec(R("u8"))>>, <<"boxed", <<"box", R("string")>>>>, <<"doc", R("json")>>,
           <<"emb", RVec(R("bf16"))>>, <<"f_32", R("f32")>>, <<"f_64", R("f64")>>, <<"fixed", <<"arr", R("u8")>>>>, <<"flag", R("bool")>>,
           <<"i_16", R("i16")>>, <<"i_32", R("i32")>>, <<"i_64", R("i64")>>, <<"i_8", R("i8")>>, <<"i_sz", R("isize")>>,
           <<"text", R("string")>>, <<"u_16", R("u16")>>, <<"u_32", R("u32")>>, <<"u_64", R("u64")>>, <<"u_8", R("u8")>>, <<"u_sz", R("usize")>> >>],
     [name |-> "Options", fields |->
        << <<"o_blob", ROpt(RVec(R("u8")))>>, <<"o_emb", ROpt(RVec(R("bf16")))>>, <<"o_f32", ROpt(R("f32"))>>, <<"o_flag", ROpt(R("bool"))>>,
           <<"o_i64", ROpt(R("i64"))>>, <<"o_inner", ROpt(Inner)>>, <<"o_map", ROpt(RMap(R("string"), R("u64")))>>, <<"o_text", ROpt(R("string"))>>,
           <<"o_u8", ROpt(R("u8"))>>, <<"o_vec", ROpt(RVec(R("i32")))>> >>],
     [name |-> "Containers", fields |->
        << <<"deep", RMap(R("string"), RVec(ROpt(Inner)))>>, <<"hm", RMap(R("string"), R("i64"))>>, <<"inner", Inner>>,
           <<"m_bytes", RMap(R("bytebuf"), R("u64"))>>, <<"m_i64", RMap(R("i64"), R("f32"))>>, <<"m_inner", RMap(R("string"), Inner)>>,
           <<"m_json", RMap(R("string"), R("json"))>>, <<"m_text", RMap(R("string"), R("string"))>>, <<"m_vec", RMap(R("i32"), RVec(R("i64")))>>,
           <<"s_u64", <<"set", R("u64")>>>>, <<"v_f32", RVec(R("f32"))>>, <<"v_i32", RVec(R("i32"))>>, <<"v_inner", RVec(Inner)>>,
           <<"v_opt", RVec(ROpt(R("i64")))>>, <<"v_text", RVec(R("string"))>>, <<"v_vec", RVec(RVec(R("u64")))>> >>] >>

\* canonical boundary values that fit the RUST type
RECURSIVE RVals(_)
RVals(r) ==
  CASE r[1] = "bool" -> << <<"bool", TRUE>>, <<"bool", FALSE>> >>
    [] r[1] = "i8"  -> << I("-1"), I("0"), I("1") >>
    [] r[1] \in {"i16", "i32"} -> << I("-1"), I("0"), I("255"), I("32640") >>
    [] r[1] \in {"i64", "isize"} -> << I("i64min"), I("-1"), I("0"), I("65536"), I("i64max") >>
    [] r[1] = "u8"  -> << U("0"), U("1"), U("255") >>
    [] r[1] = "u16" -> << U("0"), U("256"), U("65535") >>
    [] r[1] = "u32" -> << U("0"), U("65535"), U("65536") >>
    [] r[1] \in {"u64", "usize"} -> << U("0"), U("65536"), U("i64max"), U("i64max+1"), U("u64max") >>
    [] r[1] = "f32" -> Mat([i \in 1..(Len(F32Atoms) - 1) |-> <<"f32", F32Atoms[i]>>])
    [] r[1] = "f64" -> Mat([i \in 1..(Len(F64Atoms) - 1) |-> <<"f64", F64Atoms[i]>>])
    [] r[1] = "string" -> << Tx(""), Tx("a"), Tx("b64:AQID") >>
    [] r[1] = "json" -> Mat([i \in 1..(Len(JVals) - 1) |-> <<"json", JVals[i + 1]>>])          \* Some(Json null) is None to serde
    [] r[1] = "bytebuf" -> << <<"bytes", <<>>>>, <<"bytes", <<"0", "255">>>> >>
    [] r[1] = "opt" -> <<Null>> \o RVals(r[2])
    [] r[1] = "box" -> RVals(r[2])
    [] r[1] = "arr" -> << <<"bytes", <<"0", "1", "42", "255">>>>, <<"bytes", <<"255", "255", "0", "0">>>> >>
    [] r[1] = "set" -> << Arr(<<>>), Arr(<< U("0"), U("1"), U("u64max") >>) >>
    [] r[1] = "vec" ->
         IF r[2][1] = "u8" THEN << <<"bytes", <<>>>>, <<"bytes", <<"0", "255", "42">>>> >>
         ELSE IF r[2][1] = "bf16" THEN << <<"vector", <<>>>>, <<"vector", <<"0", "32768", "32704", "65535", "32640", "65408", "1">>>> >>
         ELSE LET vs == RVals(r[2]) IN << Arr(<<>>), Arr(<<vs[1]>>), Arr(vs) >>
    [] r[1] = "rmap" ->
         LET vs == RVals(r[3])
             k1 == IF r[2][1] = "string" THEN KT("k") ELSE IF r[2][1] \in SignedInts THEN <<"i64", "-1">> ELSE <<"bytes", <<>>>>
             k2 == IF r[2][1] = "string" THEN KT("*") ELSE IF r[2][1] \in SignedInts THEN <<"i64", "255">> ELSE <<"bytes", <<"42">>>>
         IN << Mp(<<>>), Mp(<< <<k1, vs[1]>> >>), Mp(<< <<k1, vs[Len(vs)]>>, <<k2, Pick(vs, 2)>> >>) >>
    [] r[1] = "struct" ->
         LET vss == Mat([j \in 1..Len(r[2]) |-> RVals(r[2][j][2])])
             n == MaxF(Mat([j \in 1..Len(r[2]) |-> Len(vss[j])]), Len(r[2]))
         IN Mat([k \in 1..n |-> Mp(Mat([j \in 1..Len(r[2]) |-> <<KT(r[2][j][1]), Pick(vss[j], k)>>]))])

DerCase(s) ==
  LET st == Structs[s]
      fts == Mat([i \in 1..Len(st.fields) |-> <<st.fields[i][1], DeriveFT(st.fields[i][2])>>])
      vss == Mat([i \in 1..Len(st.fields) |-> RVals(st.fields[i][2])])
      n == MaxF(Mat([i \in 1..Len(vss) |-> Len(vss[i])]), Len(vss))
      rows == Mat([k \in 1..n |-> Mat([i \in 1..Len(vss) |-> <<st.fields[i][1], Pick(vss[i], k)>>])])
  IN [fam |-> "der", name |-> st.name, types |-> fts, rows |-> rows,
      rows_canonical |-> \A k \in 1..n : \A i \in 1..Len(vss) :
                           LET t == fts[i][2] v == rows[k][i][2]
                           IN FieldValid(t, v) /\ ~HasNaN(v) /\ Norm(t, v) = v /\ Canon(t, v) = v /\ Back(t, v) = v /\ Typed(t, v) = v]

---------------------------------------------------------------------------
VARIABLES fam, ti, vi
vars == <<fam, ti, vi>>

Init == /\ vi = 0
        /\ fam \in Fams
        /\ \/ fam = "ax"  /\ ti = 1
           \/ fam = "val" /\ ti \in 1..NT
           \/ fam = "bud" /\ ti \in 1..NB
           \/ fam = "upg" /\ ti \in 1..NC
           \/ fam = "der" /\ ti \in 1..Len(Structs)
\* initial states are computed by one thread: all the work happens in the successors
Next == /\ vi = 0
        /\ vi' \in 1..(IF fam = "val" THEN Len(ValCases[ti]) ELSE 1)
        /\ UNCHANGED <<fam, ti>>
Spec == Init /\ [][Next]_vars

t0 == TypeSeq[ti]
v0 == ValCases[ti][vi][2]

ValCase ==
  LET norm == Norm(t0, v0)
      setok == FieldValid(t0, norm)
      storable == ~HasNaN(norm)
      typed == Typed(t0, v0)
  IN [fam |-> "val", kind |-> ValCases[ti][vi][1], t |-> t0, v |-> v0,
      valid |-> FieldValid(t0, v0), norm |-> norm, setok |-> setok, storable |-> storable,
      raw |-> IF setok /\ storable THEN Stored(norm) ELSE Err,
      canon |-> IF setok /\ storable THEN Canon(t0, norm) ELSE Err,
      typed |-> typed, coerce |-> Coerce(t0, v0)]

BudCase ==
  LET t == BudCases[ti][1] v == Expand(BudCases[ti][2]) IN
  [fam |-> "bud", t |-> t, v |-> BudCases[ti][2], valid |-> FieldValid(t, v), setok |-> FieldValid(t, Norm(t, v)),
   typedok |-> ~IsErr(Typed(t, v)), nodes |-> Nodes(v), height |-> Height(v)]

AxCase ==
  [fam |-> "ax",
   ints |-> Mat([i \in 1..Len(IntAtoms) |-> LET a == IntAtoms[i] IN <<a, Neg(a), FitsI64(a), FitsU64(a), FitsU16(a), FitsU8(a)>>]),
   f64s |-> Mat([i \in 1..Len(F64Atoms) |-> LET f == F64Atoms[i] IN <<f, IsNaN(f), Finite(f), RoundF32(f), F32InRange(f), F32ReadBack(f)>>]),
   f32s |-> F32Atoms,
   budget |-> <<MaxDepth, MaxNodes, MaxArrayLen, MaxMapEntries>>]

Case == CASE fam = "val" -> ValCase [] fam = "bud" -> BudCase [] fam = "upg" -> UpgCase(ti)
          [] fam = "der" -> DerCase(ti) [] fam = "ax" -> AxCase

(* The property, on the specification itself.                              *)
ValLaws ==
  LET norm == Norm(t0, v0)
      setok == FieldValid(t0, norm)
      typed == Typed(t0, v0)
  IN /\ ValCases[ti][vi][1] = "valid" => FieldValid(t0, v0) /\ ~HasNaN(v0)                  \* the generator generates valid values
     /\ FieldValid(t0, v0) => setok                                                        \* normalising never invalidates
     /\ Norm(t0, norm) = norm
     /\ (setok /\ ~HasNaN(norm)) =>
          LET c == Canon(t0, norm) IN
          /\ Back(t0, norm) = c            \* what the read path returns IS the declared variant of what was written
          /\ FieldValid(t0, c)             \* ... and a valid document (never "accepted on write, rejected on read")
          /\ Back(t0, c) = c /\ Canon(t0, c) = c /\ Norm(t0, c) = c     \* a fixpoint: rewriting it changes nothing
     /\ ~IsErr(typed) =>
          /\ FieldValid(t0, typed) /\ ~HasNaN(typed)
          /\ Canon(t0, typed) = typed /\ Back(t0, typed) = typed /\ Norm(t0, typed) = typed
UpgLaws == LET c == UpgCase(ti) IN c.written_valid
Laws == vi > 0 => CASE fam = "val" -> ValLaws
                    [] fam = "upg" -> UpgLaws
                    [] fam = "der" -> DerCase(ti).rows_canonical
                    [] OTHER -> TRUE

Emit == vi > 0 => PrintT(<<"REPLAY", ToJson(Case)>>)
=============================================================================
