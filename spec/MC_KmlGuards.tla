---------------------------- MODULE MC_KmlGuards ----------------------------
(***************************************************************************)
(* Direction R for C16: the bounded families of abstract mutation plans,   *)
(* enumerated completely.  One REPLAY line per plan with the verdict, the  *)
(* rules that fire and (for ASSERT) the expansion, all computed from       *)
(* KmlGuards.tla; harness/src/bin/drive_kmlguards.rs renders every plan as *)
(* KML text (parse_kip / parse_kml) and as a JSON command tree             *)
(* (validate_command / Operation{ast}.parse) and compares.                 *)
(*                                                                         *)
(*  M  the matrix: clause family x target kind x block x field name x      *)
(*     key spelling x value form x position in the block (x second action) *)
(*  K  UPDATE targets typed by two patterns combined with UNION / OPTIONAL *)
(*     / NOT / conjunction                                                 *)
(*  T  UPDATE targets typed by the clause of the same plan that created    *)
(*     them                                                                *)
(*  P  plans of 2-3 clauses over handle graphs (created earlier / later /  *)
(*     twice / never; bound by the own WHERE / by another clause's WHERE)  *)
(*  A  the ASSERT shorthand: every member subset, member order, evidence   *)
(*     and key forms, SUPERSEDING, bad members                             *)
(*  E  ENSURE PROPOSITION / ASSERT tuple forms (bare id, variable          *)
(*     predicate, literal subject)                                         *)
(*  B  belief projections in every WHERE-carrying family and EXPORT        *)
(*  I  UPSERT identity selectors                                           *)
(*  G  frozen spellings and arities the tree validator re-checks           *)
(***************************************************************************)
EXTENDS KmlGuards, TLC, Json

CONSTANT Tier       \* "quick" | "thorough"
VARIABLES fno, chunk, idx
vars == <<fno, chunk, idx>>
NChunks == 48
Thorough == Tier = "thorough"

RECURSIVE Dec(_, _)
\* mixed-radix decoding of n >= 0 into 1-based digits
Dec(n, dims) == IF dims = <<>> THEN <<>> ELSE <<(n % Head(dims)) + 1>> \o Dec(n \div Head(dims), Tail(dims))
RECURSIVE Prod(_)
Prod(dims) == IF dims = <<>> THEN 1 ELSE Head(dims) * Prod(Tail(dims))

---------------------------------------------------------------------------
(* Vocabulary.                                                             *)
KindSeq == <<"concept", "proposition", "assertion", "evidence", "activity">>
NameSeq == << "_system", "governance", "space_id", "space_seq",                          \* engine-owned
              "_System", "GOVERNANCE", "Space_Id", "space_SEQ",                          \* other names (case)
              "_system.version", "governance.classification",                            \* other names (paths)
              "proposition_id", "proposition", "asserted_by", "stance", "mode", "confidence",
              "asserted_at", "valid_time", "evidence", "evidence_refs",                  \* Assertion payload
              "evidence_class", "payload", "content_digest", "media_type", "observed_at",\* Evidence payload
              "subject", "predicate", "object",                                          \* Proposition tuple
              "Confidence", "PAYLOAD", "Subject",                                        \* other names (case)
              "note", "name" >>                                                          \* ordinary
NonIdent == {"_system.version", "governance.classification"}    \* only a quoted key can spell these

E(n, q, v)  == [n |-> n, q |-> q, v |-> v]
A(b, ents)  == [b |-> b, ents |-> ents]
Pat(k, v)   == <<"pat", k, v, "kw">>
Upd(tgt, hasw, w) == [Cl("update") EXCEPT !.tgt = tgt, !.hasw = hasw, !.w = w]
Sel(es)     == [sel |-> es, nomatch |-> FALSE]
IdSel       == Sel(<< E("id", FALSE, <<"str", "C-1">>) >>)
OkAct       == A("FACET", << E("zz_ok", FALSE, <<"num", 7>>) >>)

---------------------------------------------------------------------------
(* M - the matrix.                                                         *)
Wrap(wr, it) == CASE wr = "none"  -> <<it>>
                  [] wr = "optnot" -> << <<"opt", << <<"not", <<it>> >> >> >> >>
                  [] OTHER        -> << <<wr, <<it>> >> >>
WrapSeq == <<"none", "opt", "union", "not">>

TypedRows == [j \in 1..(Len(KindSeq) * Len(WrapSeq)) |->
                LET d == Dec(j - 1, <<Len(KindSeq), Len(WrapSeq)>>) IN
                Upd(<<"h", "t">>, TRUE, Wrap(WrapSeq[d[2]], Pat(KindSeq[d[1]], "t")))]
MRows ==
  << [Cl("create_concept")   EXCEPT !.claim = "t"],
     [Cl("upsert_concept")   EXCEPT !.claim = "t"] @@ IdSel,
     [Cl("create_evidence")  EXCEPT !.claim = "t"],
     [Cl("create_assertion") EXCEPT !.claim = "t"],
     [Cl("create_activity")  EXCEPT !.claim = "t"],
     [Cl("transition")       EXCEPT !.tgt = <<"p", "t">>],
     [Cl("set_retention")    EXCEPT !.tgt = <<"p", "t">>] >>
  \o TypedRows
  \o << Upd(<<"h", "t">>, TRUE, << <<"pat", "concept", "t", "bare">> >>),          \* ?t {...}
        Upd(<<"h", "t">>, TRUE, << <<"pat", "proposition", "t", "bare">> >>),      \* ?t (s, p, o)
        Upd(<<"h", "t">>, TRUE, << <<"pat", "proposition", "t", "id">> >>),        \* ?t PROPOSITION (id: ...)
        Upd(<<"h", "t">>, TRUE, << <<"opt", << <<"union", << Pat("assertion", "t") >> >> >> >> >>),   \* two levels deep
        Upd(<<"h", "t">>, TRUE, << <<"end", "t">> >>),                             \* bound, untyped
        Upd(<<"h", "t">>, TRUE, << Pat("assertion", "g"), <<"end", "t">> >>),      \* another variable is the Assertion
        Upd(<<"p", "t">>, FALSE, <<>>),                                            \* direct targets: the kind is
        Upd(<<"id", "t">>, FALSE, <<>>),                                           \* unknown to the parser
        Upd(<<"p", "t">>, TRUE, << Pat("assertion", "t") >>),                      \* :t is not ?t
        Upd(<<"h", "t">>, FALSE, <<>>),                                            \* unbound handle
        Upd(<<"h", "t">>, TRUE, << Pat("concept", "g") >>) >>                      \* WHERE binds another variable

ValBlocks   == <<"FIELDS", "ATTRS", "FACET", "RETENTION">>
OtherBlocks == <<"STRUCT", "UNSTRUCT", "UNATTRS", "UNFACET", "UNFIELDS">>
VForms == IF Thorough THEN <<"num", "expr", "p", "path", "objprot", "str">> ELSE <<"num", "expr">>
NPos == IF Thorough THEN 3 ELSE 2
NAct == IF Thorough THEN 3 ELSE 1
OwnVar(row) == row.fam = "update" /\ row.tgt = <<"h", "t">>
MkVal(form, row) ==
  CASE form = "num"     -> <<"num", 1>>
    [] form = "str"     -> <<"str", "s">>
    [] form = "p"       -> <<"p", "pv">>
    [] form = "expr"    -> IF OwnVar(row) THEN <<"expr", "t">> ELSE <<"exprp">>
    [] form = "path"    -> IF OwnVar(row) THEN <<"path", "t">> ELSE <<"arr", << <<"p", "pv">>, <<"num", 2>> >> >>
    [] form = "objprot" -> <<"obj", "_system", <<"num", 1>> >>
Placed(pos, x, ok) == CASE pos = 1 -> <<x>> [] pos = 2 -> <<ok, x>> [] OTHER -> <<x, ok>>
WithAct(act, row, a) == IF act = 1 \/ "FACET" \notin Admits(row.fam) THEN <<a>>
                        ELSE IF act = 2 THEN <<OkAct, a>> ELSE <<a, OkAct>>
Quoted(n, qd) == qd = 2 \/ n \in NonIdent

M1Dims == <<Len(MRows), Len(ValBlocks), Len(NameSeq), 2, Len(VForms), NPos, NAct>>
M1(j) == LET d == Dec(j - 1, M1Dims)  row == MRows[d[1]]  n == NameSeq[d[3]]
             x  == E(n, Quoted(n, d[4]), MkVal(VForms[d[5]], row))
             ok == E("zz_ok", FALSE, <<"num", 7>>)
         IN << [row EXCEPT !.acts = WithAct(d[7], row, A(ValBlocks[d[2]], Placed(d[6], x, ok)))] >>
M2Dims == <<Len(MRows), Len(OtherBlocks), Len(NameSeq), 2, NPos, NAct>>
M2(j) == LET d == Dec(j - 1, M2Dims)  row == MRows[d[1]]  n == NameSeq[d[3]]  b == OtherBlocks[d[2]]
             st == b \in StructBlocks
             x  == E(n, st \/ Quoted(n, d[4]), IF st THEN <<"p", "ref">> ELSE <<"none">>)
             ok == IF st THEN E("has_step", TRUE, <<"p", "step">>) ELSE E("zz_ok", FALSE, <<"none">>)
         IN << [row EXCEPT !.acts = WithAct(d[6], row, A(b, Placed(d[5], x, ok)))] >>

---------------------------------------------------------------------------
(* K - two typings of the UPDATE target.                                   *)
KAct(a) == CASE a = 1 -> A("FIELDS", << E("confidence", FALSE, <<"num", 1>>) >>)
             [] a = 2 -> A("FIELDS", << E("payload", FALSE, <<"str", "s">>) >>)
             [] a = 3 -> A("FIELDS", << E("subject", FALSE, <<"p", "pv">>) >>)
             [] a = 4 -> A("FIELDS", << E("note", FALSE, <<"num", 1>>) >>)
             [] a = 5 -> A("STRUCT", << E("has_step", TRUE, <<"p", "ref">>) >>)
             [] a = 6 -> A("UNSTRUCT", << E("has_step", TRUE, <<"p", "ref">>) >>)
             [] OTHER -> A("ATTRS", << E("confidence", FALSE, <<"num", 1>>) >>)
NKAct == 7
KShape(s, k1, k2) ==
  LET p1 == Pat(k1, "t")  p2 == Pat(k2, "t") IN
  CASE s = 1  -> <<p1, p2>>
    [] s = 2  -> <<p1, <<"union", <<p2>> >> >>
    [] s = 3  -> << <<"union", <<p1>> >>, <<"union", <<p2>> >> >>
    [] s = 4  -> <<p1, <<"opt", <<p2>> >> >>
    [] s = 5  -> << <<"opt", <<p1>> >>, p2>>
    [] s = 6  -> <<p1, <<"not", <<p2>> >> >>
    [] s = 7  -> << <<"not", <<p1>> >>, p2>>
    [] s = 8  -> << <<"end", "t">>, <<"union", <<p2>> >> >>
    [] s = 9  -> << <<"union", <<p1, p2>> >> >>
    [] s = 10 -> << Pat(k1, "g"), <<"opt", <<p2>> >> >>
    [] s = 11 -> << <<"opt", <<p1>> >>, <<"union", <<p2>> >> >>
    [] OTHER  -> <<p1, <<"union", << <<"not", <<p2>> >> >> >> >>
NKShape == 12
KDims == <<NKShape, Len(KindSeq), Len(KindSeq), NKAct>>
KCase(j) == LET d == Dec(j - 1, KDims) IN
            << [Upd(<<"h", "t">>, TRUE, KShape(d[1], KindSeq[d[2]], KindSeq[d[3]])) EXCEPT !.acts = <<KAct(d[4])>>] >>

---------------------------------------------------------------------------
(* Clause templates shared by T, P, A.                                     *)
Tup(s, o) == [form |-> "tuple", s |-> s, o |-> o]
PTup      == Tup(<<"p", "s">>, <<"p", "o">>)
BaseMem   == << E("by", FALSE, <<"p", "actor">>), E("mode", FALSE, <<"str", "stated">>) >>
Ens(n, tup)  == [Cl("ensure") EXCEPT !.claim = n] @@ [tup |-> tup]
Ast(n, tup, mem, sup) == [Cl("assert") EXCEPT !.claim = n] @@ [tup |-> tup, mem |-> mem, sup |-> sup]
CC(n)      == [Cl("create_concept") EXCEPT !.claim = n]
CE(n)      == [Cl("create_evidence") EXCEPT !.claim = n]
CA(n)      == [Cl("create_assertion") EXCEPT !.claim = n]
CAct(n)    == [Cl("create_activity") EXCEPT !.claim = n]
UP(n)      == [Cl("upsert_concept") EXCEPT !.claim = n] @@ IdSel
Edge(fl, v) == A("STRUCT", << E(fl, TRUE, v) >>)
CCs(n, r)  == [CC(n) EXCEPT !.acts = << Edge("has_step", <<"h", r>>) >>]
CAf(n, r)  == [CA(n) EXCEPT !.acts = << A("FIELDS", << E("proposition", FALSE, <<"h", r>>) >>) >>]
CAe(n, r)  == [CA(n) EXCEPT !.acts = << A("STRUCT", << [n |-> "evidence", q |-> TRUE, v |-> <<"h", r>>, role |-> "support"] >>) >>]
CAo(n, r)  == [CA(n) EXCEPT !.acts = << A("STRUCT", << [n |-> "evidence", q |-> TRUE, v |-> <<"p", "ev">>, o |-> <<"h", r>>] >>) >>]
CAarr(n, r) == [CA(n) EXCEPT !.acts = << A("FACET", << E("note", FALSE, <<"arr", << <<"p", "pv">>, <<"h", r>> >> >>) >>) >>]
CAobj(n, r) == [CA(n) EXCEPT !.acts = << A("FIELDS", << E("note", FALSE, <<"obj", "k", <<"h", r>> >>) >>) >>]
ENp(n)     == Ens(n, PTup)
ENs(n, r)  == Ens(n, Tup(<<"h", r>>, <<"p", "o">>))
ENo(n, r)  == Ens(n, Tup(<<"p", "s">>, <<"h", r>>))
AS0(n)     == Ast(n, PTup, BaseMem, <<"none">>)
ASs(n, r)  == Ast(n, Tup(<<"h", r>>, <<"p", "o">>), BaseMem, <<"none">>)
ASb(n, r)  == Ast(n, PTup, << E("by", FALSE, <<"h", r>>), E("mode", FALSE, <<"str", "stated">>) >>, <<"none">>)
ASe(n, r)  == Ast(n, PTup, BaseMem \o << E("evidence", FALSE, <<"arr", << <<"p", "ev">>, <<"h", r>> >> >>) >>, <<"none">>)
ASx(n, r)  == Ast(n, PTup, BaseMem, <<"h", r>>)
WOf(wv)    == IF wv = "" THEN <<>> ELSE << Pat("concept", wv) >>
Lc(fam, t, wv) == [Cl(fam) EXCEPT !.tgt = <<"h", t>>, !.hasw = (wv # ""), !.w = WOf(wv)]
AR(t, wv)  == Lc("archive", t, wv)
TB(t, wv)  == Lc("tombstone", t, wv)
RT(t, wv)  == Lc("retract", t, wv)
PG(t, wv)  == Lc("purge", t, wv) @@ [confirm |-> "PURGE"]
SR(t, wv)  == [Lc("set_retention", t, wv) EXCEPT !.acts = << A("RETENTION", << E("retention_class", FALSE, <<"str", "standard">>) >>) >>]
SRv(r)     == [Cl("set_retention") EXCEPT !.tgt = <<"p", "t">>, !.acts = << A("RETENTION", << E("retention_class", FALSE, <<"h", r>>) >>) >>]
US(t, wv, r) == [Lc("update", t, wv) EXCEPT !.acts = << Edge("has_step", <<"h", r>>) >>]
UU(t, wv, r) == [Lc("update", t, wv) EXCEPT !.acts = << A("UNSTRUCT", << E("has_step", TRUE, <<"h", r>>) >>) >>]
UA(t, wv)  == [Lc("update", t, wv) EXCEPT !.acts = << A("ATTRS", << E("note", FALSE, <<"num", 1>>) >>) >>]
UPv(wv, r) == [Cl("update") EXCEPT !.tgt = <<"p", "t">>, !.hasw = (wv # ""), !.w = WOf(wv),
                                   !.acts = << A("ATTRS", << E("note", FALSE, <<"h", r>>) >>) >>]
SUP(a, b)  == [Cl("supersede") EXCEPT !.tgt = <<"h", a>>, !.by = <<"h", b>>]
SUPp(b)    == [Cl("supersede") EXCEPT !.tgt = <<"p", "old">>, !.by = <<"h", b>>]
COR(a, b)  == [Cl("correct") EXCEPT !.tgt = <<"h", a>>, !.by = <<"h", b>>]
MG(a, b, wv) == [Cl("merge") EXCEPT !.tgt = <<"h", a>>, !.by = <<"h", b>>, !.hasw = (wv # ""), !.w = WOf(wv)]
TR(t)      == [Cl("transition") EXCEPT !.tgt = <<"h", t>>]
TRs(t, r)  == [TR(t) EXCEPT !.acts = << Edge("outputs", <<"h", r>>) >>]

N1(F(_))       == <<F("x"), F("y")>>
N2(F(_, _))    == <<F("x", "x"), F("x", "y"), F("y", "x"), F("y", "y")>>
NW(F(_, _))    == <<F("x", ""), F("x", "x"), F("x", "y"), F("y", ""), F("y", "y")>>
N3(F(_, _, _)) == <<F("x", "", "x"), F("x", "x", "x"), F("x", "x", "y"), F("x", "y", "y"), F("y", "", "x"), F("y", "y", "x")>>

---------------------------------------------------------------------------
(* T - the plan itself says what kind the UPDATE target is.                *)
TCreators == << CC("x"), UP("x"), CE("x"), CA("x"), CAct("x"), ENp("x"), AS0("x") >>
TDims == <<Len(TCreators), NKAct, 2>>
TCase(j) == LET d == Dec(j - 1, TDims)
                u == [Upd(<<"h", "x">>, FALSE, <<>>) EXCEPT !.acts = <<KAct(d[2])>>]
            IN IF d[3] = 1 THEN <<TCreators[d[1]], u>> ELSE <<u, TCreators[d[1]]>>

---------------------------------------------------------------------------
(* P - handle graphs.                                                      *)
PT == N1(CC) \o N2(CCs) \o N2(CAf) \o N2(CAe) \o N2(CAo) \o N2(CAarr) \o N1(CE) \o N1(UP)
      \o N1(ENp) \o N2(ENs) \o N2(ENo) \o <<Ens("", Tup(<<"h", "x">>, <<"p", "o">>)), Ens("", PTup)>>
      \o N1(AS0) \o N2(ASs) \o N2(ASb) \o N2(ASe) \o N2(ASx)
      \o <<Ast("", Tup(<<"h", "x">>, <<"p", "o">>), BaseMem, <<"none">>), Ast("", PTup, BaseMem, <<"h", "y">>)>>
      \o NW(AR) \o NW(PG) \o NW(RT) \o NW(SR) \o NW(TB) \o NW(UA) \o N3(US) \o N3(UU) \o N1(SRv)
      \o <<UPv("", "x"), UPv("x", "x"), UPv("y", "x")>>
      \o N2(SUP) \o N1(SUPp) \o N2(COR) \o N1(TR) \o N2(TRs)
      \o <<MG("x", "y", ""), MG("x", "y", "x"), MG("x", "y", "y"), MG("x", "x", ""), MG("y", "x", "y")>>
      \o N2(CAobj)
\* the templates 3-clause plans are drawn from (every way a name is claimed, selected, referenced)
PT3 == << CC("x"), CE("y"), CAe("y", "x"), CAf("x", "y"), ENs("y", "x"), ASs("y", "x"), ASx("x", "y"),
          AR("x", "x"), AR("x", ""), AR("y", "y"), AR("y", ""), US("x", "x", "y"), US("y", "", "x"), UA("x", ""),
          SUP("x", "y"), PG("y", "x"), MG("x", "y", "x") >>
       \o (IF Thorough THEN << CC("y"), CE("x"), UP("x"), CAo("x", "y"), ENo("x", "y"), ASb("x", "y"), ASe("y", "x"),
                               RT("x", "x"), RT("y", ""), UU("x", "x", "y"), COR("y", "x"), TRs("x", "y"),
                               SR("y", "y"), UPv("y", "x") >> ELSE <<>>)
NP1 == Len(PT)
NP2 == Len(PT) * Len(PT)
NP3 == Len(PT3) * Len(PT3) * Len(PT3)
PCase(j) == IF j <= NP1 THEN << PT[j] >>
            ELSE IF j <= NP1 + NP2 THEN LET d == Dec(j - NP1 - 1, <<Len(PT), Len(PT)>>) IN <<PT[d[1]], PT[d[2]]>>
            ELSE LET d == Dec(j - NP1 - NP2 - 1, <<Len(PT3), Len(PT3), Len(PT3)>>) IN <<PT3[d[1]], PT3[d[2]], PT3[d[3]]>>

---------------------------------------------------------------------------
(* A - the ASSERT shorthand.                                               *)
MemberSeq == <<"by", "mode", "stance", "confidence", "at", "valid", "evidence", "key">>
MemberVal == [by |-> <<"p", "actor">>, mode |-> <<"str", "stated">>, stance |-> <<"str", "oppose">>,
              confidence |-> <<"num", 1>>, at |-> <<"p", "when">>, valid |-> <<"obj", "from", <<"p", "t0">> >>,
              evidence |-> <<"p", "ev">>, key |-> <<"str", "k-1">>]
Bit(n, k) == (n \div (2 ^ (k - 1))) % 2 = 1
RECURSIVE MemFrom(_, _, _)
MemFrom(mask, k, qd) == IF k > Len(MemberSeq) THEN <<>>
                        ELSE (IF Bit(mask, k) THEN << E(MemberSeq[k], qd, MemberVal[MemberSeq[k]]) >> ELSE <<>>) \o MemFrom(mask, k + 1, qd)
SupSeq == << <<"none">>, <<"p", "old">>, <<"id", "A-0">>, <<"h", "a">>, <<"h", "z">> >>
A1Dims == <<256, 2, Len(SupSeq), 2>>
A1(j) == LET d == Dec(j - 1, A1Dims)  m == MemFrom(d[1] - 1, 1, FALSE) IN
         << Ast(IF d[2] = 1 THEN "" ELSE "a", PTup, IF d[4] = 1 THEN m ELSE Reverse(m), SupSeq[d[3]]) >>
EvSeq  == << <<"p", "ev">>, <<"str", "E-1">>, <<"h", "a">>, <<"h", "z">>,
             <<"arr", << <<"p", "ev1">>, <<"str", "E-2">> >> >>, <<"arr", << <<"str", "E-1">>, <<"str", "E-2">> >> >>,
             <<"arr", <<>> >>, <<"arr", << <<"p", "ev1">>, <<"h", "a">> >> >>, <<"arr", << <<"h", "z">> >> >>,
             <<"arr", << <<"p", "ev1">>, <<"p", "ev2">>, <<"p", "ev3">> >> >> >>
KeySeq == << <<"str", "k-1">>, <<"num", 5>>, <<"bool">>, <<"null">>, <<"p", "ck">>,
             <<"arr", << <<"num", 1>> >> >>, <<"h", "a">>, <<"obj", "k", <<"num", 1>> >>, <<"path", "a">>, <<"exprp">> >>
A2Dims == <<Len(EvSeq), Len(KeySeq), 2>>
A2(j) == LET d == Dec(j - 1, A2Dims)  qd == d[3] = 2
             m == [k \in 1..8 |-> E(MemberSeq[k], qd, IF k = 7 THEN EvSeq[d[1]] ELSE IF k = 8 THEN KeySeq[d[2]] ELSE MemberVal[MemberSeq[k]])]
         IN << Ast("a", PTup, m, <<"none">>) >>
BadMembers == << "oops", "By", "MODE", "asserted_by", "proposition", "client_key", "_system", "governance", "space_id", "space_seq", "by", "mode" >>
A3Dims == <<Len(BadMembers), 3>>
A3(j) == LET d == Dec(j - 1, A3Dims)  x == E(BadMembers[d[1]], FALSE, <<"p", "pv">>)
             m == CASE d[2] = 1 -> BaseMem \o <<x>>                       \* an extra member
                    [] d[2] = 2 -> <<x>> \o BaseMem
                    [] OTHER    -> <<x, BaseMem[2]>>                     \* ... instead of `by`
         IN << Ast("a", PTup, m, <<"none">>) >>
\* inside a plan: two shorthands, shorthand + the clause that creates its endpoints
A4Seq == << <<AS0(""), AS0("")>>, <<AS0("a"), AS0("a")>>, <<AS0("a"), AS0("b")>>, <<AS0(""), AS0("a"), AS0("")>>,
            <<CC("x"), Ast("a", Tup(<<"h", "x">>, <<"p", "o">>), << E("by", FALSE, <<"h", "x">>), E("mode", FALSE, <<"str", "stated">>) >>, <<"none">>)>>,
            <<Ast("a", Tup(<<"h", "x">>, <<"h", "x">>), BaseMem, <<"none">>), CC("x")>>,
            <<AS0("a"), ASx("b", "a")>>, <<ASx("b", "a"), AS0("a")>>, <<AS0("a"), CA("a")>>, <<AS0("a"), CC("a")>>,
            <<CE("e"), Ast("", PTup, BaseMem \o << E("evidence", FALSE, <<"h", "e">>) >>, <<"p", "old">>)>> >>

---------------------------------------------------------------------------
(* E - what ENSURE PROPOSITION / ASSERT may be given as the tuple.          *)
FormSeq == <<"tuple", "id", "idp", "predvar", "litsubj", "nestid">>
EDims == <<Len(FormSeq), 2, 2>>
ECase(j) == LET d == Dec(j - 1, EDims)
                tup == [form |-> FormSeq[d[1]], s |-> <<"p", "s">>, o |-> <<"p", "o">>]
                n == IF d[3] = 1 THEN "" ELSE "h1"
            IN << IF d[2] = 1 THEN Ens(n, tup) ELSE Ast(n, tup, BaseMem, <<"none">>) >>

---------------------------------------------------------------------------
(* B - belief projections as mutation targets / export selectors.          *)
BFams == <<"update", "retract", "set_retention", "archive", "tombstone", "purge", "merge", "export">>
BItems == << <<"belief", "b", "var">>, <<"belief", "b", "id">>, <<"belief", "b", "tuple">>, <<"slot", "b">>,
             Pat("assertion", "b") >>                                    \* the last one is the control
BWraps == <<"none", "not", "opt", "union", "optnot">>
\* positions of the item: the target itself; a side pattern after the target's pattern; and a side pattern that
\* FOLLOWS a clean NOT / OPTIONAL / UNION group of the same block (the validator must go on after a nested group)
BGroups == <<"not", "opt", "union">>
BDims == <<Len(BFams), Len(BItems), Len(BWraps), 5>>
BClause(fam, t, w) ==
  LET c == [Cl(fam) EXCEPT !.tgt = IF fam = "export" THEN <<"p", "out">> ELSE <<"h", t>>, !.hasw = TRUE, !.w = w] IN
  CASE fam = "update"        -> [c EXCEPT !.acts = << A("ATTRS", << E("note", FALSE, <<"num", 1>>) >>) >>]
    [] fam = "set_retention" -> [c EXCEPT !.acts = << A("RETENTION", << E("retention_class", FALSE, <<"str", "standard">>) >>) >>]
    [] fam = "purge"         -> c @@ [confirm |-> "PURGE"]
    [] fam = "merge"         -> [c EXCEPT !.by = <<"p", "into">>]
    [] OTHER                 -> c
BCase(j) == LET d == Dec(j - 1, BDims)  it == BItems[d[2]] IN
            IF d[4] = 1 THEN << BClause(BFams[d[1]], "b", Wrap(BWraps[d[3]], it)) >>                       \* the target itself
            ELSE IF d[4] = 2 THEN << BClause(BFams[d[1]], "t", << Pat("concept", "t") >> \o Wrap(BWraps[d[3]], it)) >>  \* a side pattern
            ELSE << BClause(BFams[d[1]], "t", << Pat("concept", "t"), <<BGroups[d[4] - 2], << Pat("concept", "t") >> >> >>
                                               \o Wrap(BWraps[d[3]], it)) >>

---------------------------------------------------------------------------
(* I - identity selectors of UPSERT CONCEPT.                               *)
SelVals == << <<"none">>, <<"str", "C-1">>, <<"p", "cid">>, <<"var", "v">> >>
IDims == <<4, 4, 2, 2, 2>>
RECURSIVE Compact(_)
Compact(s) == IF s = <<>> THEN <<>> ELSE (IF Head(s).v[1] = "none" THEN <<>> ELSE <<Head(s)>>) \o Compact(Tail(s))
I1(j) == LET d == Dec(j - 1, IDims)  qd == d[5] = 2
             es == Compact(<< E("name", qd, SelVals[d[3]]), E("id", qd, SelVals[d[1]]), E("type", qd, SelVals[d[4]]), E("key", qd, SelVals[d[2]]) >>)
         IN << [Cl("upsert_concept") EXCEPT !.claim = "c", !.acts = << A("FIELDS", << E("name", FALSE, <<"str", "s">>) >>) >>] @@ Sel(es) >>
I2Seq == << [Cl("upsert_concept") EXCEPT !.claim = "c"] @@ [sel |-> <<>>, nomatch |-> TRUE],
            [Cl("upsert_concept") EXCEPT !.claim = "c"] @@ Sel(<<>>),
            [Cl("upsert_concept") EXCEPT !.claim = "c"] @@ Sel(<< E("ID", FALSE, <<"str", "C-1">>) >>),
            [Cl("upsert_concept") EXCEPT !.claim = "c"] @@ Sel(<< E("Id", FALSE, <<"str", "C-1">>) >>),
            [Cl("upsert_concept") EXCEPT !.claim = "c"] @@ Sel(<< E("KEY", FALSE, <<"p", "cid">>) >>),
            [Cl("upsert_concept") EXCEPT !.claim = "c"] @@ Sel(<< E("canonical_id", FALSE, <<"str", "C-1">>) >>),
            [Cl("upsert_concept") EXCEPT !.claim = "c"] @@ Sel(<< E("aliases", FALSE, <<"str", "C-1">>) >>),
            [Cl("upsert_concept") EXCEPT !.claim = "c"] @@ Sel(<< E("id", FALSE, <<"num", 7>>) >>),
            [Cl("upsert_concept") EXCEPT !.claim = "c"] @@ Sel(<< E("key", FALSE, <<"null">>) >>) >>

---------------------------------------------------------------------------
(* G - frozen spellings, arities, duplicates.                              *)
GSeq == << << PG("x", "x") >>,
           << [PG("x", "x") EXCEPT !.confirm = "purge"] >>, << [PG("x", "x") EXCEPT !.confirm = ""] >>,
           << [PG("x", "x") EXCEPT !.confirm = "PURGE "] >>, << [PG("x", "x") EXCEPT !.confirm = "DELETE"] >>,
           << Upd(<<"p", "t">>, FALSE, <<>>) >>,                                                                  \* no action
           << [Upd(<<"p", "t">>, FALSE, <<>>) EXCEPT !.acts = << A("UNSTRUCT", <<>>) >>] >>,
           << [UP("x") EXCEPT !.acts = << A("UNSTRUCT", <<>>) >>] >>,
           << [Upd(<<"p", "t">>, FALSE, <<>>) EXCEPT !.acts = << A("ATTRS", << E("a", FALSE, <<"num", 1>>), E("a", TRUE, <<"num", 2>>) >>) >>] >>,
           << [Upd(<<"p", "t">>, FALSE, <<>>) EXCEPT !.acts = << A("UNATTRS", << E("a", FALSE, <<"none">>), E("a", FALSE, <<"none">>) >>) >>] >>,
           << [CC("x") EXCEPT !.acts = << A("FACET", << E("a", FALSE, <<"num", 1>>), E("a", FALSE, <<"num", 2>>) >>) >>] >>,
           << [CC("x") EXCEPT !.acts = << A("ATTRS", << E("a", FALSE, <<"num", 1>>) >>), A("ATTRS", << E("b", FALSE, <<"num", 2>>) >>) >>] >>,
           << [Upd(<<"p", "t">>, FALSE, <<>>) EXCEPT !.acts = << A("ATTRS", << E("a", FALSE, <<"num", 1>>) >>), A("ATTRS", << E("b", FALSE, <<"num", 2>>) >>) >>] >>,
           << [Cl("export") EXCEPT !.tgt = <<"p", "out">>, !.hasw = TRUE, !.w = <<>>] >>,
           << [Cl("export") EXCEPT !.tgt = <<"p", "out">>, !.hasw = TRUE, !.w = << Pat("concept", "c") >>] >>,
           << >> >>                                                                                                \* the empty plan

---------------------------------------------------------------------------
FamSeq == << <<"M1", Prod(M1Dims)>>, <<"M2", Prod(M2Dims)>>, <<"K", Prod(KDims)>>, <<"T", Prod(TDims)>>,
             <<"P", NP1 + NP2 + NP3>>, <<"A1", Prod(A1Dims)>>, <<"A2", Prod(A2Dims)>>, <<"A3", Prod(A3Dims)>>,
             <<"A4", Len(A4Seq)>>, <<"E", Prod(EDims)>>, <<"B", Prod(BDims)>>, <<"I1", Prod(IDims)>>,
             <<"I2", Len(I2Seq)>>, <<"G", Len(GSeq)>> >>
Plan(fn, j) == CASE fn = "M1" -> M1(j) [] fn = "M2" -> M2(j) [] fn = "K" -> KCase(j) [] fn = "T" -> TCase(j)
                 [] fn = "P" -> PCase(j) [] fn = "A1" -> A1(j) [] fn = "A2" -> A2(j) [] fn = "A3" -> A3(j)
                 [] fn = "A4" -> A4Seq[j] [] fn = "E" -> ECase(j) [] fn = "B" -> BCase(j) [] fn = "I1" -> I1(j)
                 [] fn = "I2" -> <<I2Seq[j]>> [] fn = "G" -> GSeq[j]

Init == fno \in 1..Len(FamSeq) /\ chunk \in 0..(NChunks - 1) /\ idx = 0
Next == /\ idx = 0
        /\ idx' \in {j \in 1..FamSeq[fno][2] : j % NChunks = chunk}
        /\ UNCHANGED <<fno, chunk>>
Spec == Init /\ [][Next]_vars

ThePlan == Plan(FamSeq[fno][1], idx)
Case == [f |-> FamSeq[fno][1], i |-> idx, plan |-> ThePlan, exp |-> Verdict(ThePlan), must |-> Must(ThePlan),
         may |-> May(ThePlan),
         x |-> IF HasAssert(ThePlan) /\ Must(ThePlan) = {} THEN ExpandPlan(ThePlan) ELSE <<>>]

OracleLaws == idx > 0 => Laws(ThePlan)
Emit == idx > 0 => PrintT(<<"REPLAY", ToJson(Case)>>)
Sizes == (idx = 0 /\ fno = 1 /\ chunk = 0) =>
           /\ PrintT(<<"SIZES", ToJson(FamSeq)>>)
           /\ PrintT(<<"VOCAB", ToJson([protected |-> Protected, assertion |-> ImmAssertion, evidence |-> ImmEvidence,
                                       proposition |-> ImmProposition, record_kinds |-> RecordKinds])>>)
=============================================================================
