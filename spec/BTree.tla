------------------------------- MODULE BTree -------------------------------
(***************************************************************************)
(* C10, query side: what an ordered multimap  key -> set of ids  answers.  *)
(* RangeQuery trees are the tagged tuples of Filter.tla (KeyPred).  A scan *)
(* hands the matching keys to a callback in key order (ascending, or       *)
(* descending for the `rev` entry point) until the callback says stop      *)
(* after `stop` invocations; the output is in ASCENDING key order either   *)
(* way.  `Eq` is a point lookup: one invocation, never cut short.          *)
(***************************************************************************)
EXTENDS Filter

Present(m) == {k \in DOMAIN m : m[k] # {}}
Matching(m, q) == Asc({k \in Present(m) : KeyPred(q, k)})

ScanFwd(m, q, stop) == IF q[1] = "eq" THEN Matching(m, q) ELSE Take(Matching(m, q), stop)
ScanRev(m, q, stop) == IF q[1] = "eq" THEN Matching(m, q) ELSE TakeLast(Matching(m, q), stop)

\* prefix scan: P = the keys that start with the prefix (a contiguous run in key order)
PrefixScan(m, P, stop) == Take(Asc(Present(m) \cap P), stop)

\* keys(cursor, limit): cursor exclusive; -1 encodes None
KeysPage(m, cursor, limit) ==
  LET after == Asc({k \in Present(m) : cursor = -1 \/ k > cursor})
  IN IF limit = -1 THEN after ELSE Take(after, limit)

\* laws the oracle satisfies itself
ScanLaws(m, q) ==
  LET full == Matching(m, q) n == Len(full) IN
  /\ \A s \in 1..(n + 1) :
       /\ IsPrefixOf(ScanFwd(m, q, s), full)
       /\ IsSuffixOf(ScanRev(m, q, s), full)
       /\ Len(ScanFwd(m, q, s)) = Len(ScanRev(m, q, s))
  /\ ScanFwd(m, q, n + 1) = full /\ ScanRev(m, q, n + 1) = full
  /\ {full[j] : j \in 1..n} \cap {k \in Present(m) : KeyPred(<<"not", q>>, k)} = {}
  /\ {full[j] : j \in 1..n} \cup {k \in Present(m) : KeyPred(<<"not", q>>, k)} = Present(m)
=============================================================================
