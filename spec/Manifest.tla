------------------------------ MODULE Manifest ------------------------------
(***************************************************************************)
(* The bucket / generation / manifest flush protocol shared by the B-tree  *)
(* index (rs/anda_db_btree/src/btree.rs: flush_owned_with, load_buckets,   *)
(* compact_buckets) and the BM25 index (rs/anda_db_tfs/src/bm25.rs) -      *)
(* C10 / C11 persistence, and the lemma Collection.tla relies on: an index *)
(* flush is an atomic snapshot commit.                                     *)
(*                                                                         *)
(* Memory: every key lives in exactly one bucket; a bucket is dirty when   *)
(* its content differs from the durable object the manifest names for it.  *)
(* Flush: snapshot the dirty buckets (generation = metadata version, fresh *)
(* per flush) ; write each to a NEW object <<bucket, generation>> ; commit *)
(* the metadata carrying the manifest (THE atomic point) ; publish in      *)
(* memory ; the caller deletes the objects the new manifest dropped.       *)
(* Crash at any point; Load reads exactly the objects of the durable       *)
(* manifest.                                                               *)
(***************************************************************************)
EXTENDS Naturals, FiniteSets

CONSTANTS Keys, Ids, Buckets, MaxVersion

Empty == [k \in Keys |-> {}]

VARIABLES
  post,      \* [Keys -> SUBSET Ids]   in-memory postings
  home,      \* [Keys -> Buckets]      bucket owning the key
  dirty,     \* SUBSET Buckets
  version,   \* metadata version (bumped by every mutation)
  mMan,      \* in-memory manifest: [Buckets -> generation or 0]
  obj,       \* durable bucket objects: [Buckets \X Nat -> content or "none"]
  dMan,      \* durable manifest
  fl,        \* flush in progress: [st, gen, snap, todo, man, obsolete]
  saved,     \* in-memory last_saved_version
  dVer,      \* version recorded in the durable metadata
  committed  \* ghost: the content at the last manifest commit

mvars == <<post, home, dirty, version, mMan, obj, dMan, fl, saved, dVer, committed>>

NoFlush == [st |-> "idle"]
Content(b) == [k \in Keys |-> IF home[k] = b THEN post[k] ELSE {}]
Gens == 0..MaxVersion
Absent == [k \in Keys |-> {0}]     \* marker for "no such object" (0 is not an id)

Init ==
  /\ post = Empty /\ home = [k \in Keys |-> CHOOSE b \in Buckets : \A c \in Buckets : b <= c]
  /\ dirty = {} /\ version = 1
  /\ mMan = [b \in Buckets |-> 0] /\ dMan = [b \in Buckets |-> 0]
  /\ obj = [p \in Buckets \X Gens |-> Absent]
  /\ fl = NoFlush /\ saved = 0 /\ dVer = 0 /\ committed = Empty

\* what a loader sees: exactly the objects the durable manifest names
Loaded == [k \in Keys |-> UNION {obj[<<b, dMan[b]>>][k] : b \in {c \in Buckets : dMan[c] # 0}}]

---------------------------------------------------------------------------
(* mutations (never concurrent with a flush: the caller's contract) *)
Insert(k, id) ==
  /\ fl.st = "idle" /\ version < MaxVersion /\ id \notin post[k]
  /\ post' = [post EXCEPT ![k] = @ \cup {id}]
  /\ dirty' = dirty \cup {home[k]}                 \* the bucket that OWNS the key becomes dirty
  /\ version' = version + 1
  /\ UNCHANGED <<home, mMan, obj, dMan, fl, saved, dVer, committed>>

Remove(k, id) ==
  /\ fl.st = "idle" /\ version < MaxVersion /\ id \in post[k]
  /\ post' = [post EXCEPT ![k] = @ \ {id}]
  /\ dirty' = dirty \cup {home[k]}
  /\ version' = version + 1
  /\ UNCHANGED <<home, mMan, obj, dMan, fl, saved, dVer, committed>>

\* a growing posting spills into another bucket: both buckets change
Migrate(k, b) ==
  /\ fl.st = "idle" /\ version < MaxVersion /\ home[k] # b /\ post[k] # {}
  /\ home' = [home EXCEPT ![k] = b]
  /\ dirty' = dirty \cup {home[k], b}
  /\ version' = version + 1
  /\ UNCHANGED <<post, mMan, obj, dMan, fl, saved, dVer, committed>>

\* compaction re-bins every key; every bucket is dirty afterwards
Compact(h) ==
  /\ fl.st = "idle" /\ version < MaxVersion /\ h \in [Keys -> Buckets] /\ h # home
  /\ home' = h /\ dirty' = Buckets /\ version' = version + 1
  /\ UNCHANGED <<post, mMan, obj, dMan, fl, saved, dVer, committed>>

---------------------------------------------------------------------------
(* flush *)
\* generation of this flush: the metadata version, bumped first when nothing but a load-time repair
\* made buckets dirty (flush_owned_with: "force a fresh version in that case")
FlushGen == IF version = saved THEN version + 1 ELSE version

\* `drop`: dirty buckets that no longer exist in memory (compaction leftovers) leave the manifest
\* instead of being rewritten; only empty ones can
FlushSnapshot(drop) ==
  /\ fl.st = "idle" /\ FlushGen <= MaxVersion
  /\ drop \subseteq {b \in dirty : Content(b) = Empty}
  /\ LET g == FlushGen
         man == [b \in Buckets |-> IF b \in drop THEN 0 ELSE IF b \in dirty THEN g ELSE mMan[b]] IN
     /\ fl' = [st |-> "writing", gen |-> g, snap |-> [b \in dirty \ drop |-> Content(b)], todo |-> dirty \ drop,
               flushed |-> dirty, man |-> man, post |-> post,
               obsolete |-> {<<b, mMan[b]>> : b \in {c \in Buckets : mMan[c] # 0 /\ man[c] # mMan[c]}}]
     /\ version' = g
  /\ UNCHANGED <<post, home, dirty, mMan, obj, dMan, saved, dVer, committed>>

\* "create/overwrite the object addressed by (bucket, generation)": never one the durable manifest names
WriteBucket(b) ==
  /\ fl.st = "writing" /\ b \in fl.todo
  /\ dMan[b] # fl.gen
  /\ obj' = [obj EXCEPT ![<<b, fl.gen>>] = fl.snap[b]]
  /\ fl' = [fl EXCEPT !.todo = @ \ {b}]
  /\ UNCHANGED <<post, home, dirty, version, mMan, dMan, saved, dVer, committed>>

CommitManifest ==
  /\ fl.st = "writing" /\ fl.todo = {}
  /\ dMan' = fl.man /\ dVer' = fl.gen
  /\ committed' = fl.post
  /\ fl' = [fl EXCEPT !.st = "committed"]
  /\ UNCHANGED <<post, home, dirty, version, mMan, obj, saved>>

Publish ==
  /\ fl.st = "committed"
  /\ mMan' = fl.man /\ saved' = fl.gen
  /\ dirty' = dirty \ fl.flushed
  /\ fl' = [fl EXCEPT !.st = "cleanup"]
  /\ UNCHANGED <<post, home, version, obj, dMan, dVer, committed>>

DeleteObsolete(o) ==
  /\ fl.st = "cleanup" /\ o \in fl.obsolete
  /\ obj' = [obj EXCEPT ![o] = Absent]
  /\ fl' = [fl EXCEPT !.obsolete = @ \ {o}]
  /\ UNCHANGED <<post, home, dirty, version, mMan, dMan, saved, dVer, committed>>

FlushEnd ==
  /\ fl.st = "cleanup"            \* deletions are best effort: the flush may end with leftovers
  /\ fl' = NoFlush
  /\ UNCHANGED <<post, home, dirty, version, mMan, obj, dMan, saved, dVer, committed>>

\* a failed flush (any callback error) commits nothing; everything stays dirty and the retry reuses the
\* generation unless a mutation intervenes (rewriting unreferenced garbage)
FlushFail ==
  /\ fl.st = "writing"
  /\ fl' = NoFlush
  /\ UNCHANGED <<post, home, dirty, version, mMan, obj, dMan, saved, dVer, committed>>

---------------------------------------------------------------------------
(* crash + load: memory becomes what the durable manifest describes; every key sits in the bucket *)
(* whose object holds it                                                                          *)
Crash ==
  /\ post' = Loaded
  /\ home' = [k \in Keys |-> IF \E b \in Buckets : dMan[b] # 0 /\ obj[<<b, dMan[b]>>][k] # {}
                            THEN CHOOSE b \in Buckets : dMan[b] # 0 /\ obj[<<b, dMan[b]>>][k] # {}
                            ELSE home[k]]
  /\ dirty' = {} /\ mMan' = dMan /\ fl' = NoFlush
  /\ version' = (IF dVer = 0 THEN 1 ELSE dVer) /\ saved' = dVer     \* nothing committed: a new index
  /\ UNCHANGED <<obj, dMan, dVer, committed>>

---------------------------------------------------------------------------
(* What a whole index operation (any composition of the mutations above) must satisfy; the trace  *)
(* specifications check it for every recorded call of the real index.                              *)
MutationOK ==
  \* a bucket leaves the dirty set only by ceasing to exist without ever having been persisted
  /\ \A b \in dirty \ dirty' : mMan[b] = 0 /\ Content(b)' = Empty
  /\ \A b \in Buckets : Content(b)' # Content(b) => b \in dirty' \/ (mMan[b] = 0 /\ Content(b)' = Empty)
  /\ version' > version
  /\ UNCHANGED <<mMan, obj, dMan, saved, dVer, committed>>

---------------------------------------------------------------------------
(* C10 / C11 *)
\* loading what ANY prefix of a flush left behind yields exactly the last committed content
LoadIsCommitted == Loaded = committed

\* objects named by the durable manifest exist and are never rewritten or deleted
ReferencedExist == \A b \in Buckets : dMan[b] # 0 => obj[<<b, dMan[b]>>] # Absent

\* a clean bucket's content is exactly its durable object: flushing only dirty buckets loses nothing
CleanBucketsDurable ==
  fl.st = "idle" =>
    \A b \in Buckets : b \notin dirty =>
       IF mMan[b] = 0 THEN Content(b) = Empty ELSE obj[<<b, mMan[b]>>] = Content(b)

\* a key has one home: no posting is listed by two loaded buckets
NoDuplicateHomes ==
  \A k \in Keys : Cardinality({b \in Buckets : dMan[b] # 0 /\ obj[<<b, dMan[b]>>][k] \notin {{}, {0}}}) <= 1
=============================================================================
