CONSTANTS
  MaxId <- TrMaxId
  Val <- TrVal
  Index <- TrIndex
  Kind <- TrKind
  Terms <- TrTerms
  IdxSet <- TrIdxSet
  Stride <- TrStride
  Proc <- TrProc
SPECIFICATION TraceSpec
INVARIANT QuiescentExact
INVARIANT UniqueHolds
INVARIANT DistinctIds
POSTCONDITION TraceAccepted
CHECK_DEADLOCK FALSE
