---------------------------- MODULE SidecarTrace ----------------------------
(***************************************************************************)
(* Trace validation for Sidecar.tla: MetaStore / EncryptedStore run over a *)
(* recording inner store (harness/src/bin/drive_sidecar.rs).  Every inner  *)
(* MUTATION must be the corresponding protocol step of the process that    *)
(* issued it, in protocol order, with the logged key and generation;       *)
(* reads, listings and arrivals are stutters.  After every operation and   *)
(* after every crash a COLD wrapper reads and lists every key: the         *)
(* observation must be exactly Read(k) of the specification state.         *)
(* PointerValid / Immutable are evaluated in every state.                  *)
(***************************************************************************)
EXTENDS Sidecar, Json, IOUtils, TLC, TLCExt

Rec == ndJsonDeserialize(IOEnv.TRACE)
SeqToSet(s) == {s[j] : j \in 1..Len(s)}

Hdr == Rec[2]
TrKey == SeqToSet(Hdr.keys)
TrProc == 0..(Hdr.nprocs - 1)

VARIABLES l,
  callAt,   \* [Proc -> trace position of the process's latest call event]
  born      \* set of <<g, position of the call event of the operation that wrote generation g>>
tvars == <<svars, l, callAt, born>>
Ev == Rec[l]
IsEv(e) == l <= Len(Rec) /\ Ev.e = e /\ l' = l + 1
P == Ev.p

TrReset == IsEv("reset") /\ UNCHANGED svars
TrInit ==
  /\ IsEv("init")
  /\ meta' = [k \in Key |-> NoPtr] /\ gen' = {} /\ nextGen' = 1 /\ inflight' = {}
  /\ pc' = [p \in Proc |-> Idle] /\ gc' = GcIdle

\* a legacy (pre-0.10) object written straight into the backend before the wrapper is built:
\* data/<k> with a generation-less commit point, or (orphan) without one
TrPlant ==
  /\ IsEv("plant")
  /\ \A o \in gen : o[1] # Ev.k
  /\ ~Present(Ev.k)
  /\ gen' = gen \cup {<<Ev.k, Leg, Ev.v>>}
  /\ meta' = IF Ev.orphan THEN meta ELSE [meta EXCEPT ![Ev.k] = [g |-> Leg, v |-> Ev.v]]
  /\ UNCHANGED <<nextGen, inflight, pc, gc>>

TrCall ==
  /\ IsEv("call")
  /\ pc[P].st = "idle"
  /\ IF Ev.op = "gc"
     THEN /\ gc.st = "idle"
          \* generations minted before the call are below the floor
          /\ gc' = [GcIdle EXCEPT !.st = "sweep", !.floor = nextGen]
          /\ pc' = [pc EXCEPT ![P] = [st |-> "gc", op |-> "gc"]]
     ELSE /\ pc' = [pc EXCEPT ![P] =
                 CASE Ev.op \in {"put", "multipart"} -> [st |-> "called", op |-> "put", k |-> Ev.k, v |-> Ev.v]
                   [] Ev.op \in {"copy", "rename"}   -> [st |-> "called", op |-> Ev.op, k |-> Ev.b, src |-> Ev.a]
                   [] Ev.op = "delete"               -> [st |-> "called", op |-> "delete", k |-> Ev.k]]
          /\ UNCHANGED gc
  /\ UNCHANGED <<meta, gen, nextGen, inflight>>

\* an inner mutation
TrBe ==
  /\ IsEv("be") /\ Ev.res = "ok"
  /\ LET c == pc[P] IN
     CASE \* ---- the payload of a put goes to a fresh generation of its key
          Ev.cls = "gen" /\ Ev.kind = "put" ->
            /\ c.st = "called" /\ c.op = "put" /\ Ev.k = c.k /\ Ev.g = nextGen
            /\ gen' = gen \cup {<<c.k, Ev.g, c.v>>}
            /\ inflight' = inflight \cup {<<c.k, Ev.g>>}
            /\ nextGen' = nextGen + 1
            /\ pc' = [pc EXCEPT ![P] = [st |-> "payload", op |-> "put", k |-> c.k, v |-> c.v, g |-> Ev.g, old |-> 0]]
            /\ UNCHANGED <<meta, gc>>
          \* ---- copy / rename: the CURRENT payload of the source into a fresh generation of the target
       [] Ev.cls = "gen" /\ Ev.kind = "copy" ->
            /\ c.st = "called" /\ c.op \in {"copy", "rename"} /\ Ev.k = c.k /\ Ev.sk = c.src /\ Ev.g = nextGen
            /\ Present(c.src) /\ Ev.sg = meta[c.src].g
            /\ gen' = gen \cup {<<c.k, Ev.g, meta[c.src].v>>}
            /\ inflight' = inflight \cup {<<c.k, Ev.g>>}
            /\ nextGen' = nextGen + 1
            /\ pc' = [pc EXCEPT ![P] = [st |-> "payload", op |-> c.op, k |-> c.k, src |-> c.src,
                                         v |-> meta[c.src].v, g |-> Ev.g, old |-> 0]]
            /\ UNCHANGED <<meta, gc>>
          \* ---- the pointer switch: after the payload, to exactly that generation
       [] Ev.cls = "meta" /\ Ev.kind = "put" ->
            /\ SwitchPointer(P) /\ Ev.k = c.k /\ Ev.g = c.g
          \* ---- commit-point deletion: delete, or the second half of a rename
       [] Ev.cls = "meta" /\ Ev.kind = "delete" ->
            \/ /\ c.st = "called" /\ c.op = "delete" /\ Ev.k = c.k /\ Present(c.k)
               /\ meta' = [meta EXCEPT ![c.k] = NoPtr]
               /\ pc' = [pc EXCEPT ![P] = [st |-> "unlinked", op |-> "delete", k |-> c.k, g |-> meta[c.k].g]]
               /\ UNCHANGED <<gen, nextGen, inflight, gc>>
            \/ /\ c.st = "switched" /\ c.op = "rename" /\ Ev.k = c.src /\ Present(c.src)
               /\ meta' = [meta EXCEPT ![c.src] = NoPtr]
               /\ inflight' = inflight \ {<<c.k, c.g>>}
               /\ pc' = [pc EXCEPT ![P] = [st |-> "unlinked", op |-> "rename", k |-> c.src, g |-> meta[c.src].g]]
               /\ UNCHANGED <<gen, nextGen, gc>>
          \* ---- payload deletions
       [] Ev.cls = "gen" /\ Ev.kind = "delete" ->
            \/ \* the replaced payload, after the switch
               /\ c.st = "switched" /\ c.old # 0 /\ Ev.k = c.k /\ Ev.g = c.old
               /\ ReclaimOld(P)
            \/ \* the payload of a deleted key, after its commit point is gone
               /\ c.st = "unlinked" /\ Ev.k = c.k /\ Ev.g = c.g
               /\ gen' = {o \in gen : ~(o[1] = c.k /\ o[2] = c.g)}
               /\ pc' = [pc EXCEPT ![P].st = "reclaimed"]
               /\ UNCHANGED <<meta, nextGen, inflight, gc>>
            \/ \* the collector: only below its floor, never in flight, never referenced NOW.
               \* The trace numbers generations in the order their payloads reach the backend, while the
               \* floor compares MINTING times; a generation is minted somewhere between its operation's
               \* call and its payload write, so "minted before the sweep began" is checked in the
               \* weakest form the events determine: the writing operation was called before the sweep.
               /\ c.st = "gc"
               \* (a legacy payload data/<k> has no generation, hence no floor)
               /\ (Ev.g = Leg \/ \E b \in born : b[1] = Ev.g /\ b[2] < callAt[P])
               /\ <<Ev.k, Ev.g>> \notin inflight
               /\ meta[Ev.k].g # Ev.g
               /\ gen' = {o \in gen : ~(o[1] = Ev.k /\ o[2] = Ev.g)}
               /\ UNCHANGED <<meta, nextGen, inflight, pc, gc>>
       [] OTHER -> FALSE

\* arrivals and reads: no effect
TrQuiet == (IsEv("pk") \/ IsEv("rd")) /\ UNCHANGED svars

TrRet ==
  /\ IsEv("ret")
  /\ LET c == pc[P] IN
     \/ /\ Ev.ok /\ c.st = "switched" /\ c.op \in {"put", "copy"} /\ Finish(P)
     \/ /\ Ev.ok /\ c.st \in {"unlinked", "reclaimed"}
        /\ pc' = [pc EXCEPT ![P] = Idle] /\ UNCHANGED <<meta, gen, nextGen, inflight, gc>>
     \/ /\ Ev.ok /\ c.st = "gc" /\ gc' = GcIdle
        /\ pc' = [pc EXCEPT ![P] = Idle] /\ UNCHANGED <<meta, gen, nextGen, inflight>>
     \/ \* refused without any effect: unknown source / key
        /\ ~Ev.ok /\ Ev.err = "notfound" /\ c.st = "called"
        /\ (c.op \in {"copy", "rename"} => ~Present(c.src))
        /\ (c.op = "delete" => ~Present(c.k))
        /\ c.op # "put"
        /\ pc' = [pc EXCEPT ![P] = Idle] /\ UNCHANGED <<meta, gen, nextGen, inflight, gc>>

TrCrash == IsEv("crash") /\ Crash

\* a cold wrapper reads and lists every key
TrObs ==
  /\ IsEv("obs")
  /\ Ev.list_ok
  /\ \A k \in Key : Ev.vals[k] = Read(k)
  /\ {Ev.listed[j][1] : j \in 1..Len(Ev.listed)} = {k \in Key : Present(k)}
  /\ UNCHANGED svars

\* bookkeeping of call positions (trace-only; determined by the event alone)
Clock ==
  /\ callAt' = IF Ev.e = "init" THEN [p \in Proc |-> 0]
                ELSE IF Ev.e = "call" THEN [callAt EXCEPT ![P] = l] ELSE callAt
  /\ born' = IF Ev.e = "init" THEN {}
              ELSE IF Ev.e = "be" /\ Ev.res = "ok" /\ Ev.cls = "gen" /\ Ev.kind \in {"put", "copy"}
                   THEN born \cup {<<Ev.g, callAt[P]>>} ELSE born

TraceInit == Init /\ l = 1 /\ callAt = [p \in Proc |-> 0] /\ born = {}
TraceNext == (TrReset \/ TrInit \/ TrPlant \/ TrCall \/ TrBe \/ TrQuiet \/ TrRet \/ TrCrash \/ TrObs) /\ Clock
TraceSpec == TraceInit /\ [][TraceNext]_tvars

TraceAccepted ==
  LET d == TLCGet("stats").diameter IN
  IF d - 1 = Len(Rec) THEN TRUE
  ELSE /\ PrintT(<<"TRACE_REJECTED", d, ToJson(Rec[d])>>)
       /\ FALSE
=============================================================================
