------------------------------ MODULE KipGrammar ------------------------------
(***************************************************************************)
(* C15, grammatical half: the surface language of KIP 2.0 as               *)
(* rs/anda_kip/KIPSyntax.md documents it and rs/anda_kip/src/parser/       *)
(* {common,kql,kml,meta,json}.rs implement it.                             *)
(*                                                                         *)
(* A command is an ABSTRACT SYNTAX TREE (tagged tuples, first element the  *)
(* tag).  This module defines, for every tree,                             *)
(*   Tok(t)    its token sequence (the grammar: which tokens, which order, *)
(*             which brackets) - text is produced from tokens by the       *)
(*             harness, which knows spelling only, no grammar;             *)
(*   Kind(t)   "kql" | "kml" | "meta": what the text IS (parse_kip must    *)
(*             return that class, exactly that specific parser accepts);   *)
(*   Valid(t)  the schema-independent rules the parser enforces while      *)
(*             reading: BELIEF and raw predicate paths are KQL-only (also  *)
(*             when nested in object patterns, under NOT/OPTIONAL/UNION),  *)
(*             a Proposition subject is never a Literal, hop ranges are    *)
(*             ordered, the statement tail has a fixed clause order, body  *)
(*             clause menus, ASSERT members, UPSERT identity, the frozen   *)
(*             PURGE confirmation, non-empty MUTATE / EXPORT selection,    *)
(*             distinct declared handles;                                  *)
(*   Shape(t)  the variant names the parsed tree must show (ASSERT lowers  *)
(*             to ENSURE PROPOSITION + CREATE ASSERTION [+ SUPERSEDE]);    *)
(*   DepthOf   the bracket nesting of the rendered text, decided by the    *)
(*             lexical oracle of KipBudget on the flattened tokens.        *)
(* Verdict(t): "budget" (refused before parsing) | "ok" | "reject".        *)
(*                                                                         *)
(* Tokens are pairs <<class, payload>>:                                    *)
(*   kw  protocol keyword (ASCII case-insensitive)                         *)
(*   fn  function name (aggregate / filter / update; case-insensitive)     *)
(*   id  identifier (object key, `id`), case-sensitive                     *)
(*   idg identifier glued to the previous token (after `.`)                *)
(*   p   punctuation / operator;  pg  punctuation glued to the previous    *)
(*       token (`.` and `[` of a path step, `{` of a hop quantifier)       *)
(*   var ?name   par :name   lit true|false|null                           *)
(*   str / num   named entry of the string / number table                  *)
(*   raw named splice of the mutation alphabet                             *)
(*   <<"run", n, tok>>   n copies of tok written without separators        *)
(*   <<"pad", kind, L>>  trivia that pads the whole text to exactly L bytes *)
(*   <<"flip", tok>>     tok with its letters' case flipped (a mutation)   *)
(***************************************************************************)
EXTENDS KipBudget, FiniteSets

Kw(s)  == <<"kw", s>>
Fn(s)  == <<"fn", s>>
Id(s)  == <<"id", s>>
Idg(s) == <<"idg", s>>
P(s)   == <<"p", s>>
Pg(s)  == <<"pg", s>>
Var(s) == <<"var", s>>
Par(s) == <<"par", s>>
Str(s) == <<"str", s>>
Num(s) == <<"num", s>>
Lit(s) == <<"lit", s>>
Raw(s) == <<"raw", s>>
Run(n, tok) == <<"run", n, tok>>
Pad(kind, total) == <<"pad", kind, total>>
Rung(n, toks) == <<"rung", n, toks>>

Kws(ws) == [i \in 1..Len(ws) |-> Kw(ws[i])]

RECURSIVE Concat(_)
Concat(ss) == IF Len(ss) = 0 THEN <<>> ELSE Head(ss) \o Concat(Tail(ss))
RECURSIVE Join(_, _)
Join(ss, sep) == IF Len(ss) = 0 THEN <<>>
                 ELSE IF Len(ss) = 1 THEN ss[1] ELSE ss[1] \o sep \o Join(Tail(ss), sep)
Commas(ss) == Join(ss, <<P(",")>>)
Rep(n, ts) == Concat([i \in 1..n |-> ts])
Paren(ts) == <<P("(")>> \o ts \o <<P(")")>>
Brace(ts) == <<P("{")>> \o ts \o <<P("}")>>
Brack(ts) == <<P("[")>> \o ts \o <<P("]")>>
Range(f) == {f[i] : i \in DOMAIN f}
Distinct(s) == Cardinality(Range(s)) = Len(s)

---------------------------------------------------------------------------
(* Lexical content of the string table and of the splice alphabet, as      *)
(* scanner symbols (runs of ordinary characters collapse to one "x").  The *)
(* harness owns the concrete spellings and REFUSES TO RUN unless the       *)
(* abstraction of each of its spellings equals the entry below.            *)
StrBody == [
  plain    |-> <<"x">>,                               \* Drug
  empty    |-> <<>>,
  T        |-> <<"x">>,                               \* T
  PURGE    |-> <<"x">>,                               \* PURGE (the frozen confirmation)
  purge    |-> <<"x">>,                               \* purge (a near miss)
  escquote |-> <<"x", "bs", "q", "x", "bs", "q">>,    \* say \"hi\"
  trailbs  |-> <<"x", "bs", "bs">>,                   \* C:\\         (ends in an escaped backslash)
  onlybs   |-> <<"bs", "bs">>,                        \* \\
  bsquote  |-> <<"bs", "bs", "bs", "q">>,             \* \\\"         (escaped backslash, escaped quote)
  opens    |-> <<"lp", "lb", "lc">>,                  \* ([{
  closes   |-> <<"rp", "rb", "rc">>,                  \* )]}
  slashes  |-> <<"x", "sl", "sl", "x", "sl", "x">>,   \* http://a/b
  comment  |-> <<"sl", "sl", "x", "lb">>,             \* // no [
  escslash |-> <<"bs", "sl">>,                        \* \/
  nlesc    |-> <<"x", "bs", "x", "bs", "x">>,          \* a\nb\tc
  uesc     |-> <<"bs", "x", "bs", "x", "bs", "x">>,    \* \u0041\ud83d\ude00
  unicode  |-> <<"x">>,                               \* multi-byte text
  huge     |-> <<"x">>,                               \* 200 000 letters
  keyword  |-> <<"x">>,                               \* FIND WHERE LIMIT
  quotebr  |-> <<"bs", "q", "lb", "lp">> ]            \* \"[(

RawBody == [
  quote  |-> <<"q">>,  bslash |-> <<"bs">>, slash |-> <<"sl">>, dslash |-> <<"sl", "sl">>,
  nl     |-> <<"nl">>, lp |-> <<"lp">>, lb |-> <<"lb">>, lc |-> <<"lc">>,
  rp     |-> <<"rp">>, rb |-> <<"rb">>, rc |-> <<"rc">>,
  junk   |-> <<"x">>,                                 \* @
  semi   |-> <<"x">>,                                 \* ;
  word   |-> <<"x">>,                                 \* trailing
  find   |-> <<"x">>,                                 \* FIND
  nul    |-> <<"x">>,                                 \* U+0000
  emoji  |-> <<"x">>,                                 \* a 4-byte scalar
  cmt    |-> <<"sl", "sl", "x", "q", "x", "lb", "x", "lc", "nl">>,   \* // it's "quoted [ {  + newline
  strfrag |-> <<"q", "lb", "bs", "q">> ]              \* "[\"   (opens a string that contains a bracket and an escaped quote)

BrSym(s) == CASE s = "(" -> "lp" [] s = "[" -> "lb" [] s = "{" -> "lc"
              [] s = ")" -> "rp" [] s = "]" -> "rb" [] s = "}" -> "rc" [] OTHER -> "x"

RECURSIVE TokRuns(_)
TokRuns(t) ==
  CASE t[1] \in {"p", "pg"} -> << <<BrSym(t[2]), 1>> >>
    [] t[1] = "str"  -> << <<"q", 1>> >> \o Unit(StrBody[t[2]]) \o << <<"q", 1>> >>
    [] t[1] = "raw"  -> Unit(RawBody[t[2]])
    [] t[1] = "run"  -> IF t[3][1] = "p" THEN << <<BrSym(t[3][2]), t[2]>> >> ELSE << <<"x", 1>> >>
    [] t[1] = "flip" -> TokRuns(t[2])
    [] t[1] = "rung" -> << <<"x", 1>> >>      \* n copies of a bracket-free, string-free token group
    [] OTHER         -> << <<"x", 1>> >>      \* words, numbers, padding trivia

Glued(t) == t[1] \in {"pg", "idg"}
\* the canonical rendering puts one space between two tokens unless the second is glued
Flatten(toks) ==
  Concat([i \in 1..Len(toks) |->
            (IF i = 1 \/ Glued(toks[i]) THEN <<>> ELSE << <<"x", 1>> >>) \o TokRuns(toks[i])])
DepthOf(toks) == Peak(Flatten(toks))

\* total length when the command carries a pad token (the harness pads to exactly that many bytes)
PadLen(toks) == LET S == {i \in 1..Len(toks) : toks[i][1] = "pad"}
                IN IF S = {} THEN 0 ELSE toks[CHOOSE i \in S : TRUE][3]

---------------------------------------------------------------------------
(* Rendering: tree -> tokens.                                              *)
IsScalarTag(x) == x \in {"par", "str", "num", "lit"}
IsLiteralTag(x) == x \in {"str", "num", "lit"}

\* <<"path", var, steps>>, step = <<"f", name>> | <<"k", strname>>
TokPath(v) ==
  <<Var(v[2])>> \o Concat([i \in 1..Len(v[3]) |->
      IF v[3][i][1] = "f" THEN <<Pg("."), Idg(v[3][i][2])>>
      ELSE <<Pg("["), Str(v[3][i][2]), P("]")>>])

RECURSIVE TokVal(_)
\* data values, assignment right-hand sides, update expressions
TokVal(v) ==
  CASE IsScalarTag(v[1]) \/ v[1] = "var" -> <<v>>
    [] v[1] = "path"  -> TokPath(v)
    [] v[1] = "arr"   -> Brack(Commas([i \in 1..Len(v[2]) |-> TokVal(v[2][i])]))
    [] v[1] = "arrt"  -> <<P("[")>> \o Commas([i \in 1..Len(v[2]) |-> TokVal(v[2][i])]) \o <<P(","), P("]")>>
    [] v[1] = "obj"   -> Brace(Commas([i \in 1..Len(v[2]) |-> <<v[2][i][1], P(":")>> \o TokVal(v[2][i][2])]))
    [] v[1] = "objt"  -> <<P("{")>> \o Commas([i \in 1..Len(v[2]) |-> <<v[2][i][1], P(":")>> \o TokVal(v[2][i][2])])
                         \o <<P(","), P("}")>>
    [] v[1] = "ucall" -> <<Fn(v[2])>> \o Paren(Commas([i \in 1..Len(v[3]) |-> TokVal(v[3][i])]))
    [] v[1] = "atower" -> <<Run(v[2], P("["))>> \o TokVal(v[3]) \o <<Run(v[2], P("]"))>>     \* n nested arrays
    [] v[1] = "aopen"  -> <<Run(v[2], P("["))>>                                             \* n unclosed arrays
    [] v[1] = "abig"   -> <<P("["), Rung(v[2], <<Num("1"), P(",")>>), Num("1"), P("]")>>       \* a flat array of n + 1 numbers
    [] v[1] = "otower" -> Rep(v[2], <<P("{"), Id("a"), P(":")>>) \o TokVal(v[3]) \o Rep(v[2], <<P("}")>>)
    [] v[1] = "utower" -> Rep(v[2], <<Fn("ADD"), P("("), Num("1"), P(",")>>) \o TokVal(v[3]) \o Rep(v[2], <<P(")")>>)

TokQuant(q) ==
  CASE q[1] = "none"  -> <<>>
    [] q[1] = "exact" -> <<Pg("{"), Num(q[2]), P("}")>>
    [] q[1] = "open"  -> <<Pg("{"), Num(q[2]), P(","), P("}")>>
    [] q[1] = "range" -> <<Pg("{"), Num(q[2]), P(","), Num(q[3]), P("}")>>
\* predicate: an atom token, or <<"ppath", << <<atom, quant>>, ... >> >>
TokPred(p) ==
  IF p[1] = "ppath" THEN Join([i \in 1..Len(p[2]) |-> <<p[2][i][1]>> \o TokQuant(p[2][i][2])], <<P("|")>>)
  ELSE <<p>>

RECURSIVE TokPat(_)
\* terms, object patterns, pattern values, Proposition expressions
TokPat(t) ==
  CASE IsScalarTag(t[1]) \/ t[1] = "var" -> <<t>>
    [] t[1] = "om"     -> Brace(Commas([i \in 1..Len(t[2]) |-> <<t[2][i][1], P(":")>> \o TokPat(t[2][i][2])]))
    [] t[1] = "omt"    -> <<P("{")>> \o Commas([i \in 1..Len(t[2]) |-> <<t[2][i][1], P(":")>> \o TokPat(t[2][i][2])])
                          \o <<P(","), P("}")>>
    [] t[1] = "marr"   -> Brack(Commas([i \in 1..Len(t[2]) |-> TokPat(t[2][i])]))
    [] t[1] = "tuple"  -> Paren(TokPat(t[2]) \o <<P(",")>> \o TokPred(t[3]) \o <<P(",")>> \o TokPat(t[4]))
    [] t[1] = "pid"    -> Paren(<<Id("id"), P(":"), t[2]>>)
    [] t[1] = "mtower" -> <<Run(t[2], P("["))>> \o TokPat(t[3]) \o <<Run(t[2], P("]"))>>
    [] t[1] = "mopen"  -> <<Run(t[2], P("["))>>
    [] t[1] = "ptower" -> Rep(t[2], <<P("("), Var("s"), P(","), Str("plain"), P(",")>>) \o TokPat(t[3]) \o Rep(t[2], <<P(")")>>)
    [] t[1] = "omtower" -> Rep(t[2], <<P("{"), Id("a"), P(":")>>) \o TokPat(t[3]) \o Rep(t[2], <<P("}")>>)

RECURSIVE TokOpd(_)
TokOpd(o) ==
  CASE IsScalarTag(o[1]) -> <<o>>
    [] o[1] = "path"  -> TokPath(o)
    [] o[1] = "flist" -> Brack(Commas([i \in 1..Len(o[2]) |-> TokOpd(o[2][i])]))
    [] o[1] = "neg"   -> <<P("-")>> \o TokOpd(o[2])
    [] o[1] = "negs"  -> <<Run(o[2], P("-"))>> \o TokOpd(o[3])
    [] o[1] = "ogrp"  -> Paren(TokOpd(o[2]))
    [] o[1] = "fbig"  -> <<P("["), Rung(o[2], <<Num("1"), P(",")>>), Num("1"), P("]")>>
    [] o[1] \in {"obj", "objt"} -> TokVal(o)

RECURSIVE TokF(_)
TokF(e) ==
  CASE e[1] = "cmp"   -> TokOpd(e[3]) \o <<P(e[2])>> \o TokOpd(e[4])
    [] e[1] = "and"   -> TokF(e[2]) \o <<P("&&")>> \o TokF(e[3])
    [] e[1] = "or"    -> TokF(e[2]) \o <<P("||")>> \o TokF(e[3])
    [] e[1] = "fnot"  -> <<P("!")>> \o TokF(e[2])
    [] e[1] = "fgrp"  -> Paren(TokF(e[2]))
    [] e[1] = "fcall" -> <<Fn(e[2])>> \o Paren(Commas([i \in 1..Len(e[3]) |-> TokOpd(e[3][i])]))
    [] e[1] = "bangs" -> <<Run(e[2], P("!"))>> \o TokF(e[3])
    [] e[1] = "chain" -> TokF(e[4]) \o Rep(e[3], <<P(e[2])>> \o TokF(e[4]))                 \* e (op e)^n
    [] e[1] = "fparens" -> <<Run(e[2], P("("))>> \o TokF(e[3]) \o <<Run(e[2], P(")"))>>

OptVar(v) == IF v = "" THEN <<>> ELSE <<Var(v)>>
OptKw(b, k) == IF b THEN <<Kw(k)>> ELSE <<>>

RECURSIVE TokClause(_)
TokClause(c) ==
  CASE c[1] = "concept" -> <<Var(c[2])>> \o OptKw(c[3], "CONCEPT") \o TokPat(c[4])
    [] c[1] = "kindpat" -> <<Var(c[3]), Kw(c[2])>> \o TokPat(c[4])
    [] c[1] = "wprop"   -> OptVar(c[2]) \o OptKw(c[3], "PROPOSITION") \o TokPat(c[4])
    [] c[1] = "struct"  -> OptVar(c[2]) \o <<Kw("STRUCTURAL")>>
                           \o Paren(TokPat(c[3]) \o <<P(","), c[4], P(",")>> \o TokPat(c[5]))
    [] c[1] = "belief"  -> <<Var(c[2]), Kw("BELIEF")>>
                           \o (IF c[3][1] = "bvar" THEN Paren(<<Var(c[3][2])>>) ELSE TokPat(c[3]))
    [] c[1] = "slot"    -> <<Var(c[2]), Kw("BELIEF"), Kw("SLOT")>> \o Paren(TokPat(c[3]) \o <<P(",")>> \o TokPred(c[4]))
    [] c[1] = "filter"  -> <<Kw("FILTER")>> \o Paren(TokF(c[2]))
    [] c[1] \in {"not", "optional", "union"} ->
         <<Kw(IF c[1] = "not" THEN "NOT" ELSE IF c[1] = "optional" THEN "OPTIONAL" ELSE "UNION")>>
         \o Brace(Concat([i \in 1..Len(c[2]) |-> TokClause(c[2][i])]))
    [] c[1] = "nottower" -> Rep(c[2], <<Kw("NOT"), P("{")>>)
                            \o Concat([i \in 1..Len(c[3]) |-> TokClause(c[3][i])]) \o Rep(c[2], <<P("}")>>)

TokWhere(cs) == <<Kw("WHERE")>> \o Brace(Concat([i \in 1..Len(cs) |-> TokClause(cs[i])]))
\* optional pieces are <<>> when absent and a 1-tuple <<x>> when present
OptWhere(w)       == IF Len(w) = 0 THEN <<>> ELSE TokWhere(w[1])
OptKwScalar(ws, s) == IF Len(s) = 0 THEN <<>> ELSE Kws(ws) \o <<s[1]>>
TokAsOf(a) == IF Len(a) = 0 THEN <<>> ELSE <<Kw("AS"), Kw("OF"), Kw(a[1]), a[2]>>

\* projection: a path, or <<"agg", FN, distinct, path>>
TokProj(e) == IF e[1] = "agg" THEN <<Fn(e[2])>> \o Paren(OptKw(e[3], "DISTINCT") \o TokPath(e[4])) ELSE TokPath(e)

(* KQL: <<"find", projections, clauses, tail, order>>                      *)
(* tail = <<asof, fortime, epistemic, orderby, limit, cursor>>; order = the *)
(* emission order of the six tail slots (<<1,2,3,4,5,6>> is the grammar's). *)
TailPart(tl, k) ==
  CASE k = 1 -> TokAsOf(tl[1])
    [] k = 2 -> OptKwScalar(<<"FOR", "TIME">>, tl[2])
    [] k = 3 -> IF Len(tl[3]) = 0 THEN <<>> ELSE <<Kw("WITH"), Kw("EPISTEMIC")>> \o TokVal(tl[3][1])
    [] k = 4 -> IF Len(tl[4]) = 0 THEN <<>>
                ELSE <<Kw("ORDER"), Kw("BY")>>
                     \o Commas([i \in 1..Len(tl[4][1]) |-> TokProj(tl[4][1][i][1]) \o OptKw(tl[4][1][i][2] # "", tl[4][1][i][2])])
    [] k = 5 -> OptKwScalar(<<"LIMIT">>, tl[5])
    [] k = 6 -> OptKwScalar(<<"CURSOR">>, tl[6])
TokFind(t) ==
  <<Kw("FIND")>> \o Paren(Commas([i \in 1..Len(t[2]) |-> TokProj(t[2][i])])) \o TokWhere(t[3])
  \o Concat([i \in 1..6 |-> TailPart(t[4], t[5][i])])

(* KML.  A body clause is <<labelwords, args...>>.                          *)
TokFields(fs) == Brace(Commas([i \in 1..Len(fs) |-> <<fs[i]>>]))
TokEdge(e)    == Paren(<<e[1], P(",")>> \o TokVal(e[2])) \o (IF Len(e[3]) = 0 THEN <<>> ELSE TokVal(e[3][1]))
TokBodyClause(b) ==
  Kws(b[1]) \o
  CASE b[1] \in {<<"TYPE">>, <<"NAME">>, <<"CLIENT", "KEY">>, <<"EXPECT", "VERSION">>} -> <<b[2]>>
    [] b[1] = <<"MATCH">> -> TokPat(b[2])
    [] b[1] \in {<<"SET", "FIELDS">>, <<"SET", "ATTRIBUTES">>} -> TokVal(b[2])
    [] b[1] = <<"SET", "FACET">> -> <<b[2]>> \o TokVal(b[3])
    [] b[1] = <<"UNSET", "ATTRIBUTES">> -> TokFields(b[2])
    [] b[1] = <<"UNSET", "FACET">> -> <<b[2]>> \o TokFields(b[3])
    [] b[1] = <<"SET", "STRUCTURAL">> -> Brace(Concat([i \in 1..Len(b[2]) |-> TokEdge(b[2][i])]))
    [] b[1] = <<"UNSET", "STRUCTURAL">> -> Brace(Concat([i \in 1..Len(b[2]) |-> TokEdge(<<b[2][i][1], b[2][i][2], <<>>>>)]))
TokBody(bs) == Brace(Concat([i \in 1..Len(bs) |-> TokBodyClause(bs[i])]))

RECURSIVE TokStmt(_)
TokStmt(s) ==
  CASE s[1] = "create_concept" -> <<Kw("CREATE"), Kw("CONCEPT"), Var(s[2])>> \o TokBody(s[3])
    [] s[1] = "upsert_concept" -> <<Kw("UPSERT"), Kw("CONCEPT"), Var(s[2])>> \o TokBody(s[3])
    [] s[1] = "create_record"  -> <<Kw("CREATE"), Kw(s[2]), Var(s[3])>> \o TokBody(s[4])
    [] s[1] = "ensure"   -> <<Kw("ENSURE"), Kw("PROPOSITION")>> \o OptVar(s[2]) \o TokPat(s[3])
                            \o OptKwScalar(<<"EXPECT", "VERSION">>, s[4])
    [] s[1] = "assert"   -> <<Kw("ASSERT")>> \o OptVar(s[2]) \o TokPat(s[3]) \o TokVal(s[4])
                            \o OptKwScalar(<<"SUPERSEDING">>, s[5])
    [] s[1] = "update"   -> <<Kw("UPDATE"), s[2]>> \o OptKwScalar(<<"EXPECT", "VERSION">>, s[3])
                            \o Concat([i \in 1..Len(s[4]) |-> TokBodyClause(s[4][i])])
                            \o OptWhere(s[5]) \o OptKwScalar(<<"LIMIT">>, s[6])
    [] s[1] = "retract"  -> <<Kw("RETRACT"), Kw("ASSERTION"), s[2]>> \o OptWhere(s[3])
                            \o OptKwScalar(<<"LIMIT">>, s[4]) \o OptKwScalar(<<"EXPECT", "STATE">>, s[5])
    [] s[1] = "supersede" -> <<Kw("SUPERSEDE"), Kw("ASSERTION"), s[2], Kw("BY"), s[3]>>
                             \o OptKwScalar(<<"EXPECT", "STATE">>, s[4])
    [] s[1] = "correct"  -> <<Kw("CORRECT"), Kw("EVIDENCE"), s[2], Kw("BY"), s[3]>>
                            \o OptKwScalar(<<"EXPECT", "STATE">>, s[4])
    [] s[1] = "transition" -> <<Kw("TRANSITION"), Kw("ACTIVITY"), s[2], Kw("TO"), s[3]>>
                              \o Concat([i \in 1..Len(s[4]) |-> TokBodyClause(s[4][i])])
                              \o OptKwScalar(<<"EXPECT", "STATE">>, s[5])
    [] s[1] = "retention" -> <<Kw("SET"), Kw("RETENTION"), s[2]>> \o TokVal(s[3]) \o OptWhere(s[4])
                             \o OptKwScalar(<<"LIMIT">>, s[5]) \o OptKwScalar(<<"EXPECT", "VERSION">>, s[6])
    [] s[1] \in {"archive", "tombstone"} ->
                            <<Kw(IF s[1] = "archive" THEN "ARCHIVE" ELSE "TOMBSTONE"), s[2]>> \o OptWhere(s[3])
                            \o OptKwScalar(<<"LIMIT">>, s[4]) \o OptKwScalar(<<"EXPECT", "STATE">>, s[5])
    [] s[1] = "purge"    -> <<Kw("PURGE"), s[2]>> \o OptWhere(s[3]) \o OptKwScalar(<<"LIMIT">>, s[4])
                            \o OptKwScalar(<<"REFERENCE", "POLICY">>, s[5]) \o <<Kw("CONFIRM"), s[6]>>
    [] s[1] = "merge"    -> <<Kw("MERGE"), Kw("CONCEPT"), s[2], Kw("INTO"), s[3]>> \o OptWhere(s[4])
                            \o OptKwScalar(<<"EXPECT", "VERSION">>, s[5])
    [] s[1] = "mutate"   -> <<Kw("MUTATE")>> \o Brace(Concat([i \in 1..Len(s[2]) |-> TokStmt(s[2][i])]))

(* META: <<"meta", Variant, parts>>; part = <<"K", word>> | <<"S", token>>  *)
(* | <<"O", value>> | <<"W", clauses>> | <<"A", kind, scalar>>.             *)
TokPart(p) ==
  CASE p[1] = "K" -> <<Kw(p[2])>>
    [] p[1] = "S" -> <<p[2]>>
    [] p[1] = "O" -> TokVal(p[2])
    [] p[1] = "W" -> TokWhere(p[2])
    [] p[1] = "A" -> TokAsOf(<<p[2], p[3]>>)
TokMeta(t) == Concat([i \in 1..Len(t[3]) |-> TokPart(t[3][i])])

(* Wrappers: <<"seq", t1, t2>> two commands in one input; <<"then", t,     *)
(* tokens>> a command followed by extra tokens; <<"lead", tokens, t>>.     *)
RECURSIVE Tok(_)
Tok(t) ==
  CASE t[1] = "find" -> TokFind(t)
    [] t[1] = "meta" -> TokMeta(t)
    [] t[1] = "seq"  -> Tok(t[2]) \o Tok(t[3])
    [] t[1] = "then" -> Tok(t[2]) \o t[3]
    [] t[1] = "lead" -> t[2] \o Tok(t[3])
    [] t[1] = "rawcmd" -> t[2]
    [] t[1] = "padded" -> (CASE t[2] = "front" -> <<Pad(t[3], t[4])>> \o Tok(t[5])
                             [] t[2] = "back"  -> Tok(t[5]) \o <<Pad(t[3], t[4])>>
                             [] OTHER          -> <<Head(Tok(t[5])), Pad(t[3], t[4])>> \o Tail(Tok(t[5])))
    [] OTHER -> TokStmt(t)

---------------------------------------------------------------------------
(* Classification: decided by what the command is, nothing else.           *)
RECURSIVE Kind(_)
Kind(t) == CASE t[1] = "find" -> "kql"
             [] t[1] = "meta" -> "meta"
             [] t[1] \in {"seq", "then"} -> Kind(t[2])
             [] t[1] = "lead" -> Kind(t[3])
             [] t[1] = "padded" -> Kind(t[5])
             [] t[1] = "rawcmd" -> "kql"
             [] OTHER -> "kml"

---------------------------------------------------------------------------
(* Validity: the rules that do not need a schema.                          *)
NumVal(n) == CASE n = "0" -> 0 [] n = "1" -> 1 [] n = "2" -> 2 [] n = "3" -> 3 [] n = "5" -> 5 [] OTHER -> -1
Keys(entries) == [i \in 1..Len(entries) |-> entries[i][1]]

ValidQuant(q) == q[1] = "range" => NumVal(q[2]) <= NumVal(q[3])
IsRawPath(p) == p[1] = "ppath" /\ ~(Len(p[2]) = 1 /\ p[2][1][2][1] = "none")
ValidPred(p, fl) == (p[1] = "ppath") => ((fl = "kql" \/ ~IsRawPath(p)) /\ \A i \in 1..Len(p[2]) : ValidQuant(p[2][i][2]))

RECURSIVE ValidPat(_, _, _)
\* pattern / term t in flavor fl; subj: t stands in the subject position of a tuple
ValidPat(t, fl, subj) ==
  CASE IsLiteralTag(t[1]) -> ~subj
    [] t[1] \in {"par", "var"} -> TRUE
    [] t[1] \in {"om", "omt"} -> Distinct(Keys(t[2])) /\ \A i \in 1..Len(t[2]) : ValidPat(t[2][i][2], fl, FALSE)
    [] t[1] = "marr" -> ~subj /\ \A i \in 1..Len(t[2]) : ValidPat(t[2][i], fl, FALSE)
    [] t[1] = "tuple" -> ValidPat(t[2], fl, TRUE) /\ ValidPred(t[3], fl) /\ ValidPat(t[4], fl, FALSE)
    [] t[1] = "pid" -> TRUE
    [] t[1] \in {"mtower", "ptower", "omtower"} -> ValidPat(t[3], fl, FALSE)
    [] t[1] = "mopen" -> FALSE

(* Operators that nest without opening a bracket (`!`, unary `-`, `&&`, `||`) are held to the same ceiling *)
(* as brackets, counted from the FILTER's own parenthesis.  The exact boundary is not documented: levels    *)
(* up to 63 are accepted, 66 and more are refused, 64 and 65 are left undecided (never generated).          *)
RECURSIVE MaxOf(_)
MaxOf(s) == IF Len(s) = 0 THEN 0 ELSE Max(Head(s), MaxOf(Tail(s)))
RECURSIVE OLevels(_)
OLevels(o) ==
  CASE o[1] = "neg"   -> 1 + OLevels(o[2])
    [] o[1] = "negs"  -> o[2] + OLevels(o[3])
    [] o[1] = "ogrp"  -> 1 + OLevels(o[2])
    [] o[1] = "flist" -> 1 + MaxOf([i \in 1..Len(o[2]) |-> OLevels(o[2][i])])
    [] OTHER -> 0
RECURSIVE FLevels(_)
FLevels(e) ==
  CASE e[1] = "cmp"   -> Max(OLevels(e[3]), OLevels(e[4]))
    [] e[1] \in {"and", "or"} -> 1 + Max(FLevels(e[2]), FLevels(e[3]))
    [] e[1] \in {"fnot", "fgrp"} -> 1 + FLevels(e[2])
    [] e[1] = "fcall" -> 1 + MaxOf([i \in 1..Len(e[3]) |-> OLevels(e[3][i])])
    [] e[1] \in {"bangs", "fparens"} -> e[2] + FLevels(e[3])
    [] e[1] = "chain" -> e[3] + FLevels(e[4])
FilterCeiling == 63

RECURSIVE ValidClause(_, _)
ValidClause(c, fl) ==
  CASE c[1] \in {"concept", "kindpat"} -> ValidPat(c[4], fl, FALSE)
    [] c[1] = "wprop"  -> ValidPat(c[4], fl, FALSE)
    [] c[1] = "struct" -> ValidPat(c[3], fl, FALSE) /\ ValidPat(c[5], fl, FALSE)
    [] c[1] = "belief" -> /\ fl = "kql"
                          /\ (c[3][1] = "tuple" => (c[3][3][1] # "ppath" /\ ValidPat(c[3], fl, FALSE)))
    [] c[1] = "slot"   -> fl = "kql" /\ ValidPat(c[3], fl, TRUE) /\ c[4][1] # "ppath"
    [] c[1] = "filter" -> FLevels(c[2]) <= FilterCeiling
    [] c[1] \in {"not", "optional", "union"} -> \A i \in 1..Len(c[2]) : ValidClause(c[2][i], fl)
    [] c[1] = "nottower" -> \A i \in 1..Len(c[3]) : ValidClause(c[3][i], fl)
ValidWhere(cs, fl) == \A i \in 1..Len(cs) : ValidClause(cs[i], fl)
ValidOptWhere(w) == Len(w) = 0 \/ ValidWhere(w[1], "exact")

Protected == {Id("_system"), Id("governance"), Id("space_id"), Id("space_seq")}
ValidAssigns(o) == Distinct(Keys(o[2])) /\ Range(Keys(o[2])) \cap Protected = {}
ValidFieldSet(fs) == Distinct(fs) /\ Range(fs) \cap Protected = {}

Single == {<<"TYPE">>, <<"NAME">>, <<"CLIENT", "KEY">>, <<"EXPECT", "VERSION">>, <<"MATCH">>, <<"SET", "FIELDS">>,
           <<"SET", "ATTRIBUTES">>, <<"UNSET", "ATTRIBUTES">>, <<"SET", "STRUCTURAL">>, <<"UNSET", "STRUCTURAL">>}
ConceptCreateMenu == {<<"TYPE">>, <<"CLIENT", "KEY">>, <<"NAME">>, <<"SET", "FIELDS">>, <<"SET", "ATTRIBUTES">>,
                      <<"SET", "FACET">>, <<"SET", "STRUCTURAL">>}
ConceptUpsertMenu == {<<"MATCH">>, <<"EXPECT", "VERSION">>, <<"SET", "FIELDS">>, <<"SET", "ATTRIBUTES">>, <<"SET", "FACET">>,
                      <<"UNSET", "ATTRIBUTES">>, <<"UNSET", "FACET">>, <<"SET", "STRUCTURAL">>, <<"UNSET", "STRUCTURAL">>}
RecordCreateMenu  == {<<"CLIENT", "KEY">>, <<"SET", "FIELDS">>, <<"SET", "FACET">>, <<"SET", "STRUCTURAL">>}
UpdateMenu        == {<<"SET", "FIELDS">>, <<"SET", "ATTRIBUTES">>, <<"SET", "FACET">>, <<"UNSET", "ATTRIBUTES">>,
                      <<"UNSET", "FACET">>, <<"SET", "STRUCTURAL">>, <<"UNSET", "STRUCTURAL">>}
TransitionMenu    == {<<"SET", "FIELDS">>, <<"SET", "STRUCTURAL">>}

ValidBodyClause(b) ==
  CASE b[1] \in {<<"SET", "FIELDS">>, <<"SET", "ATTRIBUTES">>} -> ValidAssigns(b[2])
    [] b[1] = <<"SET", "FACET">> -> ValidAssigns(b[3])
    [] b[1] = <<"UNSET", "ATTRIBUTES">> -> ValidFieldSet(b[2])
    [] b[1] = <<"UNSET", "FACET">> -> ValidFieldSet(b[3])
    [] b[1] = <<"UNSET", "STRUCTURAL">> -> Len(b[2]) > 0
    [] b[1] = <<"MATCH">> -> ValidPat(b[2], "exact", FALSE)
    [] OTHER -> TRUE
ValidBody(bs, menu) ==
  /\ \A i \in 1..Len(bs) : bs[i][1] \in menu /\ ValidBodyClause(bs[i])
  /\ \A i \in 1..Len(bs) : \A j \in (i + 1)..Len(bs) : (bs[i][1] = bs[j][1]) => bs[i][1] \notin Single

\* UPSERT identity: MATCH {id|key: literal or parameter}
HasIdentity(bs) ==
  \E i \in 1..Len(bs) : bs[i][1] = <<"MATCH">> /\
     \E k \in 1..Len(bs[i][2][2]) : bs[i][2][2][k][1] \in {Id("id"), Id("key")} /\ IsScalarTag(bs[i][2][2][k][2][1])

\* resolve-or-create needs a structural tuple with one exact, non-variable predicate
Creatable(pm) == pm[1] = "tuple" /\ pm[3][1] \in {"str", "par"} /\ ValidPat(pm, "exact", FALSE)

AssertMembers == {Id("by"), Id("mode"), Id("stance"), Id("confidence"), Id("at"), Id("valid"), Id("evidence"), Id("key")}
ValidAssert(s) ==
  /\ Creatable(s[3]) /\ ValidAssigns(s[4])
  /\ Range(Keys(s[4][2])) \subseteq AssertMembers
  /\ {Id("by"), Id("mode")} \subseteq Range(Keys(s[4][2]))
  /\ \A i \in 1..Len(s[4][2]) : (s[4][2][i][1] = Id("key")) => IsScalarTag(s[4][2][i][2][1])

\* handles a statement declares (ASSERT without a handle declares synthetic ones that never collide)
Declared(s) ==
  CASE s[1] \in {"create_concept", "upsert_concept"} -> <<s[2]>>
    [] s[1] = "create_record" -> <<s[3]>>
    [] s[1] \in {"ensure", "assert"} -> IF s[2] = "" THEN <<>> ELSE <<s[2]>>
    [] OTHER -> <<>>

RECURSIVE ValidStmt(_)
ValidStmt(s) ==
  CASE s[1] = "create_concept" -> ValidBody(s[3], ConceptCreateMenu)
    [] s[1] = "upsert_concept" -> ValidBody(s[3], ConceptUpsertMenu) /\ HasIdentity(s[3])
    [] s[1] = "create_record"  -> ValidBody(s[4], RecordCreateMenu)
    [] s[1] = "ensure"   -> Creatable(s[3])
    [] s[1] = "assert"   -> ValidAssert(s)
    [] s[1] = "update"   -> Len(s[4]) > 0 /\ ValidBody(s[4], UpdateMenu) /\ ValidOptWhere(s[5])
    [] s[1] = "retract"  -> ValidOptWhere(s[3])
    [] s[1] \in {"supersede", "correct"} -> TRUE
    [] s[1] = "transition" -> ValidBody(s[4], TransitionMenu)
    [] s[1] = "retention" -> ValidAssigns(s[3]) /\ ValidOptWhere(s[4])
    [] s[1] \in {"archive", "tombstone"} -> ValidOptWhere(s[3])
    [] s[1] = "purge"    -> ValidOptWhere(s[3]) /\ s[6] = Str("PURGE")
    [] s[1] = "merge"    -> ValidOptWhere(s[4])
    [] s[1] = "mutate"   -> /\ Len(s[2]) > 0
                            /\ \A i \in 1..Len(s[2]) : s[2][i][1] # "mutate" /\ ValidStmt(s[2][i])
                            /\ Distinct(Concat([i \in 1..Len(s[2]) |-> Declared(s[2][i])]))

\* the six tail slots of FIND come in the grammar's order: the present ones must be emitted increasing
TailOrdered(tl, ord) ==
  \A i \in 1..6 : \A j \in (i + 1)..6 : (Len(tl[ord[i]]) > 0 /\ Len(tl[ord[j]]) > 0) => ord[i] < ord[j]

ValidMetaPart(p) == (p[1] = "W") => (Len(p[2]) > 0 /\ ValidWhere(p[2], "exact"))

RECURSIVE Valid(_)
Valid(t) ==
  CASE t[1] = "find" -> Len(t[2]) > 0 /\ ValidWhere(t[3], "kql") /\ TailOrdered(t[4], t[5])
    [] t[1] = "meta" -> \A i \in 1..Len(t[3]) : ValidMetaPart(t[3][i])
    [] t[1] = "seq"  -> FALSE               \* the whole input must be ONE command
    [] t[1] = "then" -> FALSE               \* ... with nothing after it
    [] t[1] = "lead" -> FALSE               \* ... and nothing before it
    [] t[1] = "rawcmd" -> FALSE             \* token soup that is no command at all
    [] t[1] = "padded" -> Valid(t[5])       \* padding is trivia
    [] OTHER -> ValidStmt(t)

---------------------------------------------------------------------------
(* Shape of the parsed tree.                                               *)
ClauseName(c) ==
  CASE c[1] = "concept" -> "Concept"
    [] c[1] = "kindpat" -> (CASE c[2] = "ASSERTION" -> "Assertion" [] c[2] = "EVIDENCE" -> "Evidence" [] OTHER -> "Activity")
    [] c[1] = "wprop"   -> "Proposition"
    [] c[1] = "struct"  -> "Structural"
    [] c[1] = "belief"  -> "Belief"
    [] c[1] = "slot"    -> "BeliefSlot"
    [] c[1] = "filter"  -> "Filter"
    [] c[1] \in {"not", "nottower"} -> "Not"
    [] c[1] = "optional" -> "Optional"
    [] c[1] = "union"   -> "Union"
WhereNames(cs) == [i \in 1..Len(cs) |-> ClauseName(cs[i])]

RECURSIVE Lowered(_)
Lowered(s) ==
  CASE s[1] = "create_concept" -> <<"CreateConcept">>
    [] s[1] = "upsert_concept" -> <<"UpsertConcept">>
    [] s[1] = "create_record"  -> <<CASE s[2] = "EVIDENCE" -> "CreateEvidence" [] s[2] = "ASSERTION" -> "CreateAssertion"
                                       [] OTHER -> "CreateActivity">>
    [] s[1] = "ensure"   -> <<"EnsureProposition">>
    [] s[1] = "assert"   -> <<"EnsureProposition", "CreateAssertion">>
                            \o (IF Len(s[5]) = 0 THEN <<>> ELSE <<"SupersedeAssertion">>)
    [] s[1] = "update"   -> <<"Update">>
    [] s[1] = "retract"  -> <<"RetractAssertion">>
    [] s[1] = "supersede" -> <<"SupersedeAssertion">>
    [] s[1] = "correct"  -> <<"CorrectEvidence">>
    [] s[1] = "transition" -> <<"TransitionActivity">>
    [] s[1] = "retention" -> <<"SetRetention">>
    [] s[1] = "archive"  -> <<"Archive">>
    [] s[1] = "tombstone" -> <<"Tombstone">>
    [] s[1] = "purge"    -> <<"Purge">>
    [] s[1] = "merge"    -> <<"MergeConcept">>
    [] s[1] = "mutate"   -> Concat([i \in 1..Len(s[2]) |-> Lowered(s[2][i])])

MetaWhere(t) == LET S == {i \in 1..Len(t[3]) : t[3][i][1] = "W"}
                IN IF S = {} THEN <<>> ELSE WhereNames(t[3][CHOOSE i \in S : TRUE][2])
RECURSIVE ShapeOf(_)
ShapeOf(t) ==
  CASE t[1] = "find" -> <<"Kql">> \o WhereNames(t[3])
    [] t[1] = "meta" -> <<"Meta", t[2]>> \o MetaWhere(t)
    [] t[1] \in {"seq", "then", "lead", "rawcmd"} -> <<>>
    [] t[1] = "padded" -> ShapeOf(t[5])
    [] OTHER -> <<"Kml", IF t[1] = "mutate" THEN "explicit" ELSE "single">> \o Lowered(t)

Shape(t) == ShapeOf(t)
---------------------------------------------------------------------------
Verdict(t) ==
  LET toks == Tok(t) IN
  IF OverBudget(PadLen(toks), DepthOf(toks)) THEN "budget" ELSE IF Valid(t) THEN "ok" ELSE "reject"

(* What the four entry points return, as classes: the class of the command *)
(* ("kql" | "kml" | "meta"), "refused" (resource error before parsing) or  *)
(* "err".                                                                  *)
Expected(t) ==
  LET v == Verdict(t)  k == Kind(t)
      on(e) == IF v = "budget" THEN "refused" ELSE IF v = "ok" /\ e = k THEN k ELSE "err"
  IN [kip |-> IF v = "budget" THEN "refused" ELSE IF v = "ok" THEN k ELSE "err",
      kql |-> on("kql"), kml |-> on("kml"), meta |-> on("meta")]

(* The agreement law every input must satisfy, valid or not: the general   *)
(* entry point returns class c exactly when the specific parser of class c *)
(* accepts, no two specific parsers accept the same text, and the resource *)
(* refusal is common to all of them.  The harness applies the same law to  *)
(* the observed results of inputs whose verdict the grammar cannot decide  *)
(* (mutated sentences).                                                    *)
Agree(r) ==
  /\ (r.kip = "refused") <=> (r.kql = "refused")
  /\ (r.kip = "refused") <=> (r.kml = "refused")
  /\ (r.kip = "refused") <=> (r.meta = "refused")
  /\ (r.kip = "kql")  <=> (r.kql = "kql")
  /\ (r.kip = "kml")  <=> (r.kml = "kml")
  /\ (r.kip = "meta") <=> (r.meta = "meta")
  /\ r.kql \in {"kql", "err", "refused"} /\ r.kml \in {"kml", "err", "refused"} /\ r.meta \in {"meta", "err", "refused"}
  /\ Cardinality({e \in {"kql", "kml", "meta"} : r[e] = e}) <= 1

---------------------------------------------------------------------------
(* Token-level mutations (the verdict of a mutated sentence is decided     *)
(* only as far as the budget goes).                                        *)
Mutate(toks, m) ==
  LET n == Len(toks) i == m[2] IN
  CASE m[1] = "del"   -> SubSeq(toks, 1, i - 1) \o SubSeq(toks, i + 1, n)
    [] m[1] = "dup"   -> SubSeq(toks, 1, i) \o SubSeq(toks, i, n)
    [] m[1] = "swap"  -> SubSeq(toks, 1, i - 1) \o <<toks[i + 1], toks[i]>> \o SubSeq(toks, i + 2, n)
    [] m[1] = "trunc" -> SubSeq(toks, 1, i)
    [] m[1] = "flip"  -> [toks EXCEPT ![i] = <<"flip", toks[i]>>]
    [] m[1] = "ins"   -> SubSeq(toks, 1, i - 1) \o <<Raw(m[3])>> \o SubSeq(toks, i, n)
=============================================================================
