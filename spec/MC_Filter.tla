----------------------------- MODULE MC_Filter -----------------------------
(***************************************************************************)
(* TLC-only part of the Filter module: the bounded families of range       *)
(* queries / filters / populations that are enumerated completely, the     *)
(* self-consistency invariant, and the REPLAY printer that hands every     *)
(* case with its expected answer to the harness (direction R).             *)
(***************************************************************************)
EXTENDS Filter, TLC, Json

CONSTANT Tier   \* "quick" | "thorough"

Key == 0..4     \* keys stored in populations are 1..3; 0 and 4 are outside probes

---------------------------------------------------------------------------
(* Populations.  ids are deliberately NOT correlated with key order; dead  *)
(* ids are fillers the harness inserts and removes (swap-removed posting   *)
(* lists); `ia` is the value of `a` at insertion time, the harness updates *)
(* the document to `a` afterwards (posting order scrambled by updates).    *)
D(live, ia, a, b, rank, trank) == [live |-> live, ia |-> ia, a |-> a, b |-> b, rank |-> rank, trank |-> trank]

Pop1 == <<  D(TRUE,  {3}, {3}, {1,3},   4, 3),
            D(TRUE,  {3}, {3}, {},      2, 0),
            D(TRUE,  {2}, {2}, {2},     6, 1),
            D(TRUE,  {1}, {1}, {1,2,3}, 1, 6),
            D(TRUE,  {2}, {2}, {3},     5, 2),
            D(TRUE,  {1}, {1}, {1,2},   3, 5) >>

\* swap-removed postings: ids 1 and 4 are removed after everything was inserted
Pop2 == <<  D(FALSE, {2}, {2}, {2},     7, 9),
            D(TRUE,  {2}, {2}, {3},     3, 2),
            D(TRUE,  {2}, {2}, {1},     1, 0),
            D(FALSE, {1}, {1}, {1,3},   8, 8),
            D(TRUE,  {2}, {2}, {2,3},   5, 1),
            D(TRUE,  {2}, {2}, {1},     2, 3),
            D(TRUE,  {1}, {1}, {},      4, 4) >>

\* missing values, values moved by updates
Pop3 == <<  D(TRUE,  {1}, {},  {3},     2, 0),
            D(TRUE,  {1}, {3}, {},      5, 1),
            D(TRUE,  {},  {},  {},      1, 2),
            D(TRUE,  {3}, {1}, {2},     4, 0),
            D(TRUE,  {2}, {3}, {1,2,3}, 3, 3) >>

\* a single key everywhere / empty b
Pop4 == <<  D(TRUE,  {2}, {2}, {},      3, 0),
            D(TRUE,  {2}, {2}, {},      1, 0),
            D(TRUE,  {2}, {2}, {},      2, 0) >>

\* descending keys, many dead ids
Pop5 == <<  D(TRUE,  {3}, {3}, {3},     1, 1),
            D(FALSE, {3}, {3}, {3},     9, 9),
            D(TRUE,  {1}, {2}, {2,3},   2, 0),
            D(FALSE, {2}, {2}, {2},     9, 9),
            D(FALSE, {1}, {1}, {1},     9, 9),
            D(TRUE,  {2}, {1}, {1},     3, 2),
            D(TRUE,  {3}, {1}, {1,3},   4, 3) >>

\* empty collection after removals
Pop6 == <<  D(FALSE, {1}, {1}, {1},     1, 0),
            D(FALSE, {2}, {2}, {2},     2, 0) >>

\* one document
Pop7 == <<  D(TRUE,  {2}, {2}, {1,3},   1, 1) >>

\* ascending (the only correlated one - must agree too)
Pop8 == <<  D(TRUE,  {1}, {1}, {1},     6, 1),
            D(TRUE,  {1}, {1}, {1,2},   5, 2),
            D(TRUE,  {2}, {2}, {2},     4, 3),
            D(TRUE,  {2}, {2}, {2,3},   3, 4),
            D(TRUE,  {3}, {3}, {3},     2, 5),
            D(TRUE,  {3}, {3}, {},      1, 6) >>

\* more candidates than one index's top_k (10 for limit 1): the most relevant documents have the
\* largest ids, text and vector rankings disagree
Pop9 == <<  D(TRUE,  {1}, {1}, {1},     12, 11),
            D(TRUE,  {2}, {2}, {2},     11, 12),
            D(TRUE,  {3}, {3}, {3},     10, 9),
            D(TRUE,  {1}, {1}, {},      9, 10),
            D(TRUE,  {2}, {2}, {1,2},   8, 0),
            D(TRUE,  {3}, {3}, {2,3},   7, 8),
            D(TRUE,  {1}, {1}, {3},     6, 7),
            D(TRUE,  {2}, {2}, {1},     5, 6),
            D(TRUE,  {3}, {3}, {2},     4, 5),
            D(TRUE,  {1}, {2}, {1,3},   3, 4),
            D(TRUE,  {2}, {3}, {3},     2, 3),
            D(TRUE,  {3}, {1}, {1},     1, 1) >>

Pops == IF Tier = "quick" THEN <<Pop1, Pop2, Pop3, Pop9>>
        ELSE <<Pop1, Pop2, Pop3, Pop4, Pop5, Pop6, Pop7, Pop8, Pop9>>

---------------------------------------------------------------------------
(* Families of range queries.                                              *)
Cmp == {"eq", "gt", "ge", "lt", "le"}
AtomFull ==
     {<<c, k>> : c \in Cmp, k \in Key}
  \cup {<<"between", lo, hi>> : lo \in Key, hi \in Key}
  \cup {<<"include", s>> : s \in {<<>>, <<1>>, <<2, 2>>, <<3, 1>>, <<1, 2, 3>>, <<4>>, <<3, 1, 3, 0>>}}

AtomSmall ==
  { <<"eq", 2>>, <<"gt", 1>>, <<"ge", 2>>, <<"lt", 3>>, <<"le", 1>>, <<"le", 3>>,
    <<"between", 1, 2>>, <<"between", 3, 1>>, <<"include", <<3, 1, 3>>>>, <<"include", <<>>>> }

Pairs(S) == {<<x, y>> : x \in S, y \in S}

RQ1Small ==
       {<<"not", q>> : q \in AtomSmall}
  \cup {<<"and", p>> : p \in Pairs(AtomSmall)}
  \cup {<<"or",  p>> : p \in Pairs(AtomSmall)}
  \cup {<<"or", <<>>>>, <<"and", << <<"eq", 2>> >> >>, <<"or", << <<"ge", 2>>, <<"le", 1>>, <<"eq", 4>> >> >>}

AtomTiny == { <<"eq", 2>>, <<"ge", 2>>, <<"lt", 3>>, <<"between", 3, 1>>, <<"include", <<3, 1, 3>>>> }
RQ1Tiny ==
       {<<"not", q>> : q \in AtomTiny}
  \cup {<<"and", p>> : p \in Pairs(AtomTiny)}
  \cup {<<"or",  p>> : p \in Pairs(AtomTiny)}

\* depth 2 at the range level
RQ2 ==
       {<<"not", q>> : q \in RQ1Tiny}
  \cup {<<"and", <<x, y>>>> : x \in AtomTiny, y \in RQ1Tiny}
  \cup {<<"or",  <<x, y>>>> : x \in RQ1Tiny, y \in AtomTiny}

\* depth 3 at the range level (thorough only)
RQ3 ==
       {<<"not", q>> : q \in RQ2}
  \cup {<<"and", <<x, y>>>> : x \in {<<"ge", 2>>, <<"include", <<3, 1, 3>>>>}, y \in RQ2}
  \cup {<<"or",  <<x, y>>>> : x \in RQ2, y \in {<<"eq", 2>>, <<"between", 3, 1>>}}

FieldName == {"_id", "a", "b"}

---------------------------------------------------------------------------
(* Families of filters.                                                    *)
F0 == {<<"field", f, q>> : f \in FieldName, q \in AtomFull \cup RQ1Small}
F0R2 == {<<"field", f, q>> : f \in FieldName, q \in RQ2}
F0R3 == {<<"field", f, q>> : f \in FieldName, q \in RQ3}

F0Small == {<<"field", f, q>> : f \in FieldName, q \in AtomSmall}
F0Tiny  == {<<"field", f, q>> : f \in FieldName,
                                q \in {<<"eq", 2>>, <<"ge", 2>>, <<"lt", 3>>, <<"not", <<"eq", 2>>>>}}

F1Tiny ==  {<<"not", x>> : x \in F0Tiny}
      \cup {<<"and", p>> : p \in Pairs(F0Tiny)}
      \cup {<<"or",  p>> : p \in Pairs(F0Tiny)}

\* depth 3 at the filter level (thorough only)
F3Seeds == {<<"field", "a", <<"ge", 2>>>>, <<"field", "_id", <<"lt", 3>>>>, <<"field", "b", <<"not", <<"eq", 2>>>>>>}
\* The families are concatenated as sequences: TLC's set union of large
\* un-normalised sets is quadratic, and the families are disjoint by shape anyway.
F1a == {<<"not", x>> : x \in F0Small}
F1b == {<<"and", p>> : p \in Pairs(F0Small)}
F1c == {<<"or",  p>> : p \in Pairs(F0Small)}
F1d == {<<"or", <<>>>>} \cup {<<"and", <<x>>>> : x \in F0Tiny} \cup {<<"or", <<x>>>> : x \in F0Tiny}
F2a == {<<"not", x>> : x \in F1Tiny}
F2b == {<<"and", <<x, y>>>> : x \in F0Tiny, y \in F1Tiny}
F2c == {<<"or",  <<x, y>>>> : x \in F1Tiny, y \in F0Tiny}
F2d == {<<"and", <<x, y, z>>>> : x \in F0Tiny, y \in F0Tiny, z \in {<<"not", w>> : w \in F0Tiny}}
F3a == {<<"not", x>> : x \in F2a} 
F3b == {<<"not", x>> : x \in F2b}
F3c == {<<"not", x>> : x \in F2c}
F3d == {<<"and", <<x, y>>>> : x \in F3Seeds, y \in F2b}
F3e == {<<"or",  <<x, y>>>> : x \in F2c, y \in F3Seeds}
F3f == {<<"and", <<x, y>>>> : x \in F3Seeds, y \in F2c}
F3g == {<<"or",  <<x, y>>>> : x \in F2b, y \in F3Seeds}

S(x) == SetToSeq(x)
QuickSeq == S(F0) \o S(F1a) \o S(F1b) \o S(F1c) \o S(F1d) \o S(F2a) \o S(F2b) \o S(F2c) \o S(F2d) \o S(F0R2)
FilterSeq == IF Tier = "quick" THEN QuickSeq
             ELSE QuickSeq \o S(F0R3) \o S(F3a) \o S(F3b) \o S(F3c) \o S(F3d) \o S(F3e) \o S(F3f) \o S(F3g)
NF == Len(FilterSeq)
NChunks == 64

VARIABLES pi, chunk, fi
vars == <<pi, chunk, fi>>

Init == pi \in 1..Len(Pops) /\ chunk \in 0..(NChunks - 1) /\ fi = 0
Next == /\ fi = 0
        /\ fi' \in {i \in 1..NF : i % NChunks = chunk}
        /\ UNCHANGED <<pi, chunk>>
Spec == Init /\ [][Next]_vars

flt == FilterSeq[fi]

LawsHold == fi > 0 => Laws(flt, Pops[pi])

LimitsFor(n) == <<NoLimit>> \o [i \in 1..(n + 2) |-> i - 1] \o <<MaxSearchLimit + 1>>

Case ==
  LET pop  == Pops[pi]
      sem  == Sem(flt, pop)
      full == Asc(sem)
      lims == LimitsFor(Cardinality(Live(pop)))
  IN  IF Tier = "quick"
      THEN [p |-> pi, f |-> flt, full |-> full,
            pages |-> [i \in 1..Len(lims) |->
                         <<lims[i], PageFirst(full, lims[i]), PageLast(full, lims[i]),
                           SearchPageOf(pop, sem, lims[i], "vec"), SearchPageOf(pop, sem, lims[i], "hybrid")>>]]
      ELSE [p |-> pi, f |-> flt, full |-> full,
            srch |-> [i \in 1..Len(lims) |->
                         <<lims[i], SearchPageOf(pop, sem, lims[i], "vec"), SearchPageOf(pop, sem, lims[i], "hybrid")>>]]

Emit == fi > 0 => PrintT(<<"REPLAY", ToJson(Case)>>)

ASSUME PrintT(<<"POPS", ToJson(Pops)>>)
ASSUME PrintT(<<"NFILTERS", NF>>)
=============================================================================
