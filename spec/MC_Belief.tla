------------------------------ MODULE MC_Belief ------------------------------
(***************************************************************************)
(* Bounded-exhaustive enumeration of Belief.tla for replay (direction R).  *)
(* Family "agg":  every multiset of <= N side candidates over 3 actors x   *)
(*   evidence subsets of {1,2,3} of size <= 2 x confidences; the expected  *)
(*   group count and exact score are replayed against the corroboration    *)
(*   aggregation of the real crate in EVERY recording order.               *)
(* Family "full": every multiset of <= N assertions over a curated list of *)
(*   assertion types covering every eligibility stage, stance, unstated    *)
(*   confidence, validity-window boundaries and functional rivals; the     *)
(*   whole projection is replayed through the real parser and executor in  *)
(*   every recording order, and the laws of C20 are checked by TLC on      *)
(*   every case against every one-assertion extension.                     *)
(***************************************************************************)
EXTENDS Belief, TLC, Json, SequencesExt

CONSTANTS Family, N, Confs

A(actor, ev, stance, conf, mode, win, life, about) ==
  [actor |-> actor, ev |-> ev, stance |-> stance, conf |-> conf, mode |-> mode, win |-> win,
   life |-> life, about |-> about]

EvSets == {{}, {1}, {2}, {3}, {1, 2}, {1, 3}, {2, 3}}

AggTypeSet == {A(a, e, "support", c, "stated", "always", "active", "target") : a \in 1..3, e \in EvSets, c \in Confs}
AggTypes == SetToSeq(AggTypeSet)

S(actor, ev, stance, conf) == A(actor, ev, stance, conf, "stated", "always", "active", "target")
FullTypes == <<
  S(1, {},  "support", 9),                                            \*  1 decisive on its own
  S(1, {1}, "support", 4),                                            \*  2 same actor, weaker
  S(2, {1}, "support", 6),                                            \*  3 other actor, shared evidence 1
  S(3, {2}, "support", 6),                                            \*  4 independent
  S(2, {},  "support", -1),                                           \*  5 unstated confidence
  S(2, {2}, "reject", 8),                                             \*  6 opposition
  S(3, {},  "reject", 3),                                             \*  7 weak opposition (exactly material)
  S(3, {3}, "uncertain", 5),                                          \*  8 engaged without a side
  A(1, {}, "support", 10, "stated", "always", "retracted", "target"), \*  9
  A(2, {}, "support", 10, "stated", "always", "superseded", "target"),\* 10
  A(1, {}, "support", 10, "stated", "ends_now", "active", "target"),  \* 11 valid_until = at : excluded
  A(2, {}, "support", 8, "observed", "starts_now", "active", "target"),\* 12 valid_from = at : included
  A(3, {}, "reject", 10, "stated", "future", "active", "target"),     \* 13
  A(1, {}, "support", 10, "hypothetical", "always", "active", "target"), \* 14
  A(2, {}, "reject", 10, "predicted", "always", "active", "target"),  \* 15
  A(3, {1}, "support", 7, "inferred", "always", "active", "rival"),   \* 16 rival value supported: opposes
  A(1, {}, "reject", 9, "stated", "always", "active", "rival"),       \* 17 rival value rejected: nothing
  A(2, {}, "support", 9, "stated", "always", "retracted", "rival"),   \* 18 rival retracted: nothing, unlisted
  S(1, {3}, "support", 0),                                            \* 19 a STATED confidence of zero is zero, not "unstated"
  S(3, {},  "reject", 0)                                              \* 20 zero-confidence opposition: engaged, never material
>>

Types == IF Family = "agg" THEN AggTypes ELSE FullTypes
NT == Len(Types)

VARIABLE ms       \* non-decreasing sequence of type indices = a multiset
Init == ms = <<>>
Next == /\ Len(ms) < N
        /\ \E t \in (IF ms = <<>> THEN 1 ELSE ms[Len(ms)])..NT : ms' = Append(ms, t)
Spec == Init /\ [][Next]_ms

As == [i \in 1..Len(ms) |-> Types[ms[i]]]
ExtSet == {Types[t] : t \in 1..NT}

LawsHold == Family = "full" => Laws(As, BaselineModes, ExtSet)

Case ==
  IF Family = "agg"
  THEN LET S0 == 1..Len(ms) IN
       [ms |-> ms, groups |-> Cardinality(Groups(As, S0)), score |-> Score(As, S0)]
  ELSE [ms |-> ms, baseline |-> Project(As, BaselineModes), forecast |-> Project(As, ForecastModes)]

Emit == PrintT(<<"REPLAY", ToJson(Case)>>)

ASSUME PrintT(<<"TYPES", ToJson(Types)>>)
=============================================================================
