------------------------------ MODULE KipBudget ------------------------------
(***************************************************************************)
(* C15, lexical half: the resource budget every KIP entry point enforces   *)
(* BEFORE parsing (rs/anda_kip/src/parser.rs: MAX_KIP_INPUT_LEN,           *)
(* MAX_KIP_NESTING_DEPTH, validate_parser_budget, called first by          *)
(* parse_kip / parse_kql / parse_kml / parse_meta / parse_json).           *)
(*                                                                         *)
(* The documented rule: an input longer than 256 KiB, or whose `(` `[` `{` *)
(* nesting - counted outside string literals and outside `//` line         *)
(* comments - is deeper than 64, is refused with the resource error        *)
(* before any parsing work.  This module states the lexical structure      *)
(* that sentence relies on, as the KIP lexer defines it                    *)
(* (parser/json.rs: string(), character(), skip_ws_and_comments):          *)
(*   - a string literal runs from `"` to the next `"` that is not the      *)
(*     character after a backslash; a backslash escapes exactly the next   *)
(*     character, whatever it is (so `\\` is a complete escape);           *)
(*   - `//` outside a string starts a comment that ends at the newline;    *)
(*   - a closer pops only the opener of its own kind when that opener is   *)
(*     on top; a mismatched closer changes nothing.                        *)
(* Inputs are abstract: sequences of RUNS <<symbol, n>> over the alphabet  *)
(* below (every character that is not listed behaves like "x").  A run     *)
(* with n > 1 is only used for brackets (n copies of the same bracket):    *)
(* it lets TLC decide 20 000-deep towers without unfolding them, and lets  *)
(* MC_KipBudget hit the real limit (64) with words of length 5..6 by       *)
(* scaling every bracket of an exhaustively enumerated word.               *)
(***************************************************************************)
EXTENDS Integers, Sequences

MaxLen   == 262144      \* MAX_KIP_INPUT_LEN, bytes
MaxDepth == 64          \* MAX_KIP_NESTING_DEPTH

Opens   == {"lp", "lb", "lc"}                    \* ( [ {
Closes  == {"rp", "rb", "rc"}                    \* ) ] }
Symbols == Opens \cup Closes \cup {"q", "bs", "sl", "nl", "x"}   \* " \ / newline other
OpenOf(c) == CASE c = "rp" -> "lp" [] c = "rb" -> "lb" [] c = "rc" -> "lc"

Max(a, b) == IF a >= b THEN a ELSE b
Min(a, b) == IF a <= b THEN a ELSE b

(* Scanner state.  mode: "code" | "slash" (one `/` seen in code) | "str" |  *)
(* "esc" (in a string, after a backslash) | "com".  stack: runs <<k, n>> of *)
(* open brackets, adjacent runs have different kinds.                       *)
S0 == [mode |-> "code", stack |-> <<>>, depth |-> 0, peak |-> 0]

Push(s, k, n) ==
  LET h  == Len(s.stack)
      st == IF h > 0 /\ s.stack[h][1] = k THEN [s.stack EXCEPT ![h] = <<k, s.stack[h][2] + n>>]
            ELSE Append(s.stack, <<k, n>>)
  IN [mode |-> "code", stack |-> st, depth |-> s.depth + n, peak |-> Max(s.peak, s.depth + n)]

Pop(s, k, n) ==          \* n closers whose opener kind is k
  LET h == Len(s.stack) IN
  IF h = 0 \/ s.stack[h][1] # k THEN [s EXCEPT !.mode = "code"]
  ELSE LET m == Min(n, s.stack[h][2]) IN
       [mode |-> "code", depth |-> s.depth - m, peak |-> s.peak,
        stack |-> IF m = s.stack[h][2] THEN SubSeq(s.stack, 1, h - 1)
                  ELSE [s.stack EXCEPT ![h] = <<k, s.stack[h][2] - m>>]]

Step(s, c, n) ==
  CASE s.mode = "com" -> IF c = "nl" THEN [s EXCEPT !.mode = "code"] ELSE s
    [] s.mode = "esc" -> [s EXCEPT !.mode = "str"]
    [] s.mode = "str" -> IF c = "bs" THEN [s EXCEPT !.mode = "esc"]
                         ELSE IF c = "q" THEN [s EXCEPT !.mode = "code"] ELSE s
    [] OTHER ->          \* "code" or "slash"
         IF c = "sl" THEN [s EXCEPT !.mode = IF s.mode = "slash" THEN "com" ELSE "slash"]
         ELSE IF c = "q" THEN [s EXCEPT !.mode = "str"]
         ELSE IF c \in Opens THEN Push(s, c, n)
         ELSE IF c \in Closes THEN Pop(s, OpenOf(c), n)
         ELSE [s EXCEPT !.mode = "code"]

RECURSIVE ScanFrom(_, _, _)
ScanFrom(rs, i, s) == IF i > Len(rs) THEN s ELSE ScanFrom(rs, i + 1, Step(s, rs[i][1], rs[i][2]))
Scan(rs) == ScanFrom(rs, 1, S0)
Peak(rs) == Scan(rs).peak          \* deepest nesting reached anywhere in the input

(* The verdict of the budget check. *)
OverBudget(len, peak) == len > MaxLen \/ peak > MaxDepth

(* Smallest scale factor at which an input whose unit peak is p is refused. *)
Cut(p) == IF p = 0 THEN 0 ELSE (MaxDepth \div p) + 1

Unit(w)      == [i \in 1..Len(w) |-> <<w[i], 1>>]
Scaled(w, r) == [i \in 1..Len(w) |-> <<w[i], IF w[i] \in Opens \cup Closes THEN r ELSE 1>>]
=============================================================================
