CONSTANT Tier = "quick"
SPECIFICATION Spec
INVARIANT OracleLaws
INVARIANT Emit
INVARIANT Sizes
CHECK_DEADLOCK FALSE
