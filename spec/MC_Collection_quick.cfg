CONSTANTS
  MaxId = 3
  Val = {1, 2, 3}
  Index = {"k", "t", "v"}
  Kind <- MCKind
  Terms <- MCTerms
  InitIdx = {"k", "t", "v"}
  Wanted <- MCWanted
  Stride = 1
  FlushOnCreate = TRUE
  MaxCrash = 2
  MaxFaults = 0
  MaxOps = 4
  OpKinds = {"add", "update", "remove", "flush", "ext"}
  Removable = {}
SPECIFICATION MCSpec
INVARIANT TypeOK
INVARIANT QuiescentExact
INVARIANT RecoverableExact
INVARIANT UniqueHolds
INVARIANT UniqueDocs
INVARIANT IdNotReused
INVARIANT WatermarkCovers
INVARIANT CheckpointCovers
CHECK_DEADLOCK FALSE
