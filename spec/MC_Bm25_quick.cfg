CONSTANTS
  Tok = {1, 2}
  Ids = {1, 2}
  Sweep = TRUE
  MaxOps = 5
  Texts <- TextSet
SPECIFICATION MCSpec
INVARIANT Exact
INVARIANT LenExact
INVARIANT TfExact
CHECK_DEADLOCK FALSE
