CONSTANTS
  MaxId <- TrMaxId
  Val <- TrVal
  Index <- TrIndex
  Kind <- TrKind
  Terms <- TrTerms
  Removable <- TrRemovable
  InitIdx <- TrInitIdx
  Wanted <- TrWanted
  Stride <- TrStride
  FlushOnCreate = TRUE
SPECIFICATION LifeSpec
PROPERTY RetiredForEver
INVARIANT QuiescentExact
INVARIANT RecoverableExact
INVARIANT UniqueHolds
INVARIANT UniqueDocs
INVARIANT IdNotReused
INVARIANT WatermarkCovers
INVARIANT CheckpointCovers
POSTCONDITION TraceAccepted
CHECK_DEADLOCK FALSE
