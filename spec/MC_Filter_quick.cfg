CONSTANT Tier = "quick"
SPECIFICATION Spec
INVARIANT LawsHold
INVARIANT Emit
CHECK_DEADLOCK FALSE
