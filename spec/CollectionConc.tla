--------------------------- MODULE CollectionConc ---------------------------
(***************************************************************************)
(* C05: concurrent add / update / remove / save_extension / flush / get on *)
(* one live collection handle, at storage-step granularity, no crashes.    *)
(*                                                                         *)
(* Grain (what the single-threaded executor of the harness makes atomic):  *)
(* a task runs from one backend call to the next.  Hence every action is   *)
(* either the ARRIVAL of a process at a backend call (the synchronous      *)
(* section before it: gate / lock acquisition, id allocation, in-memory    *)
(* index changes), the EXECUTION of that call (the durable effect), or the *)
(* RETURN (the final synchronous section: id-set registration, lock and    *)
(* gate release).                                                          *)
(*                                                                         *)
(* Locks (rs/anda_db/src/collection.rs): operation_gate (shared for        *)
(* add/update/remove/extensions, exclusive for flush), doc_locks (update / *)
(* remove of one id), watermark_gate, extension_write_gate.  A process     *)
(* holds them from its first arrival to its return.                        *)
(*                                                                         *)
(* The sequential reference of C05 is the state itself: every action is    *)
(* atomic, so the order of the linearization points (the arrival that      *)
(* changes the indexes, the execution that changes the document) is the    *)
(* serial order; return values are checked against the state at those      *)
(* points, reads against the set of values the document held while the     *)
(* read was in progress.                                                   *)
(***************************************************************************)
EXTENDS IndexSem

CONSTANTS
  Proc,      \* set of process ids (positive integers)
  IdxSet,    \* registered indexes
  Stride

VARIABLES
  doc,       \* [Id -> Val \cup {NoDoc}]   data/<id>.cbor
  ids,       \* in-memory id set
  idx,       \* [Index -> [h, p]] in-memory indexes
  maxId, wm, ext,
  intents,   \* retained intent sequence numbers
  used,      \* ids handed out so far
  cur        \* [Proc -> operation record], st = "idle" when none

cvars == <<doc, ids, idx, maxId, wm, ext, intents, used, cur>>

IdleRec == [st |-> "idle", op |-> "none", id |-> 0]
IsIdle(p) == cur[p].st = "idle"

SharedOps == {"add", "update", "remove", "ext"}
\* a process has entered its operation (holds the gate) once it left the state "called"
Entered(p) == cur[p].st \notin {"idle", "called"}
NoExclusive(p) == \A q \in Proc \ {p} : ~(Entered(q) /\ cur[q].op = "flush")
NoneEntered(p) == \A q \in Proc \ {p} : ~(Entered(q) /\ cur[q].op \in SharedOps \cup {"flush"})
DocLockFree(p, id) ==
  \A q \in Proc \ {p} : ~(Entered(q) /\ cur[q].op \in {"update", "remove"} /\ cur[q].id = id)
WmGateFree(p) == \A q \in Proc \ {p} : ~(cur[q].st = "wm")
ExtGateFree(p) == \A q \in Proc \ {p} : ~(cur[q].op = "ext" /\ cur[q].st = "meta")

\* active readers of id see every value the document takes
Readers(id) == {q \in Proc : cur[q].st = "reading" /\ cur[q].id = id}
Seen(c, id, v) == [q \in Proc |-> IF q \in Readers(id) THEN [c[q] EXCEPT !.seen = @ \cup {v}] ELSE c[q]]

Accepts(x, id, old, v) ==
  \A i \in IdxSet :
     LET y == IF old = NoDoc THEN x[i] ELSE RemVal(i, x[i], id, old)
     IN Indexed(i, v) => CanInsert(i, y, id, Terms[i][v])
Apply(x, id, old, v) ==
  [i \in Index |-> IF i \in IdxSet
                   THEN LET y == IF old = NoDoc THEN x[i] ELSE RemVal(i, x[i], id, old)
                        IN IF v # NoDoc /\ Indexed(i, v) THEN Ins(i, y, id, Terms[i][v]) ELSE y
                   ELSE x[i]]

---------------------------------------------------------------------------
Call(p, rec) ==
  /\ IsIdle(p)
  /\ cur' = [cur EXCEPT ![p] = rec]
  /\ UNCHANGED <<doc, ids, idx, maxId, wm, ext, intents, used>>

CallAdd(p, v)        == Call(p, [st |-> "called", op |-> "add", val |-> v, id |-> 0, floor |-> maxId])
CallUpdate(p, id, v) == Call(p, [st |-> "called", op |-> "update", id |-> id, val |-> v, prev |-> NoDoc, member |-> id \in ids])
CallRemove(p, id)    == Call(p, [st |-> "called", op |-> "remove", id |-> id, prev |-> NoDoc, member |-> id \in ids])
CallExt(p, x)        == Call(p, [st |-> "called", op |-> "ext", x |-> x])
CallFlush(p)         == Call(p, [st |-> "called", op |-> "flush"])
\* get takes no gate: the membership test and the first look at the document happen at the call
CallGet(p, id) ==
  Call(p, IF id \in ids THEN [st |-> "reading", op |-> "get", id |-> id, seen |-> {doc[id]}]
                        ELSE [st |-> "absent", op |-> "get", id |-> id])

---------------------------------------------------------------------------
(* add.  The id counter is a lock-free fetch_add performed when the task is first polled after its  *)
(* admission, which leaves no trace of its own; the id becomes visible in the path of the document  *)
(* create.  The specification therefore takes the id from there and requires what C05/C01 need:     *)
(* fresh, above every id handed out before the call, and covered by the durable watermark.          *)
AddArriveWm(p) ==
  /\ cur[p].st = "called" /\ cur[p].op = "add" /\ NoExclusive(p) /\ WmGateFree(p)
  /\ cur' = [cur EXCEPT ![p].st = "wm"]
  /\ UNCHANGED <<doc, ids, idx, maxId, wm, ext, intents, used>>

AddExecWm(p, val) ==
  /\ cur[p].st = "wm"
  /\ wm' = Max2(wm, val)
  /\ cur' = [cur EXCEPT ![p].st = "wm_done"]
  /\ UNCHANGED <<doc, ids, idx, maxId, ext, intents, used>>

\* arrival at the document create: admission (if not yet) + index inserts
AddArriveDoc(p, id) ==
  /\ cur[p].op = "add"
  /\ \/ (cur[p].st = "called" /\ NoExclusive(p))
     \/ cur[p].st = "wm_done"
  /\ id \in Id /\ id \notin used /\ id > cur[p].floor /\ id <= wm
  /\ Accepts(idx, id, NoDoc, cur[p].val)
  /\ idx' = Apply(idx, id, NoDoc, cur[p].val)
  /\ maxId' = Max2(maxId, id)
  /\ used' = used \cup {id}
  /\ cur' = [cur EXCEPT ![p].st = "doc", ![p].id = id]
  /\ UNCHANGED <<doc, ids, wm, ext, intents>>

AddExecDoc(p) ==
  /\ cur[p].st = "doc" /\ cur[p].op = "add"
  /\ doc[cur[p].id] = NoDoc
  /\ doc' = [doc EXCEPT ![cur[p].id] = cur[p].val]
  /\ cur' = [Seen(cur, cur[p].id, cur[p].val) EXCEPT ![p].st = "created"]
  /\ UNCHANGED <<ids, idx, maxId, wm, ext, intents, used>>

AddRetOk(p) ==
  /\ cur[p].st = "created"
  /\ ids' = ids \cup {cur[p].id}
  /\ cur' = [cur EXCEPT ![p] = IdleRec]
  /\ UNCHANGED <<doc, idx, maxId, wm, ext, intents, used>>

\* rejected by an index: an id may be burnt, nothing else happened
AddRetReject(p) ==
  /\ cur[p].op = "add"
  /\ \/ (cur[p].st = "called" /\ NoExclusive(p))
     \/ cur[p].st = "wm_done"
  /\ ~Accepts(idx, 0, NoDoc, cur[p].val)
  /\ cur' = [cur EXCEPT ![p] = IdleRec]
  /\ UNCHANGED <<doc, ids, idx, maxId, wm, ext, intents, used>>

---------------------------------------------------------------------------
(* update / remove: the doc lock is taken at the first arrival *)
Lock(p) ==
  /\ cur[p].st = "called" /\ cur[p].op \in {"update", "remove"}
  /\ NoExclusive(p) /\ DocLockFree(p, cur[p].id)

\* first arrival may be a GET (cache miss) ...
ModArriveGet(p) ==
  /\ Lock(p)
  /\ cur' = [cur EXCEPT ![p].st = "locked", ![p].prev = doc[cur[p].id]]
  /\ UNCHANGED <<doc, ids, idx, maxId, wm, ext, intents, used>>

\* ... or directly the intent put (document served from the cache)
ModArriveIntent(p) ==
  /\ \/ (Lock(p) /\ cur' = [cur EXCEPT ![p].st = "intent_pk", ![p].prev = doc[cur[p].id]])
     \/ (cur[p].st = "locked" /\ cur' = [cur EXCEPT ![p].st = "intent_pk"])
  /\ cur'[p].prev # NoDoc
  /\ UNCHANGED <<doc, ids, idx, maxId, wm, ext, intents, used>>

ModExecIntent(p, s, id, prev, post) ==
  /\ cur[p].st = "intent_pk"
  /\ id = cur[p].id /\ prev = cur[p].prev
  /\ post = (IF cur[p].op = "update" THEN cur[p].val ELSE NoDoc)
  /\ s \notin intents
  /\ intents' = intents \cup {s}
  /\ cur' = [cur EXCEPT ![p].st = "intent"]
  /\ UNCHANGED <<doc, ids, idx, maxId, wm, ext, used>>

\* arrival at the document put / delete: the in-memory indexes move now
UpdArriveDoc(p) ==
  /\ cur[p].st = "intent" /\ cur[p].op = "update"
  /\ Accepts(idx, cur[p].id, cur[p].prev, cur[p].val)
  /\ idx' = Apply(idx, cur[p].id, cur[p].prev, cur[p].val)
  /\ cur' = [cur EXCEPT ![p].st = "doc"]
  /\ UNCHANGED <<doc, ids, maxId, wm, ext, intents, used>>

UpdExecDoc(p) ==
  /\ cur[p].st = "doc" /\ cur[p].op = "update"
  /\ doc[cur[p].id] = cur[p].prev                     \* conditional put on the version read under the lock
  /\ doc' = [doc EXCEPT ![cur[p].id] = cur[p].val]
  /\ cur' = [Seen(cur, cur[p].id, cur[p].val) EXCEPT ![p].st = "written"]
  /\ UNCHANGED <<ids, idx, maxId, wm, ext, intents, used>>

UpdRetOk(p) ==
  /\ cur[p].st = "written"
  /\ cur' = [cur EXCEPT ![p] = IdleRec]
  /\ UNCHANGED <<doc, ids, idx, maxId, wm, ext, intents, used>>

\* refused: unknown id at the membership test, document gone under the lock, or index conflict
UpdRetReject(p) ==
  /\ cur[p].op = "update"
  /\ \/ (cur[p].st = "called" /\ (~cur[p].member \/ cur[p].id \notin ids))
     \/ (cur[p].st = "locked" /\ cur[p].prev = NoDoc)
     \/ (cur[p].st = "intent" /\ ~Accepts(idx, cur[p].id, cur[p].prev, cur[p].val))
  /\ cur' = [cur EXCEPT ![p] = IdleRec]
  /\ UNCHANGED <<doc, ids, idx, maxId, wm, ext, intents, used>>

RemArriveDoc(p) ==
  /\ cur[p].st = "intent" /\ cur[p].op = "remove"
  /\ idx' = Apply(idx, cur[p].id, cur[p].prev, NoDoc)
  /\ cur' = [cur EXCEPT ![p].st = "doc"]
  /\ UNCHANGED <<doc, ids, maxId, wm, ext, intents, used>>

RemExecDoc(p) ==
  /\ cur[p].st = "doc" /\ cur[p].op = "remove"
  /\ doc' = [doc EXCEPT ![cur[p].id] = NoDoc]
  /\ cur' = [Seen(cur, cur[p].id, NoDoc) EXCEPT ![p].st = "deleted"]
  /\ UNCHANGED <<ids, idx, maxId, wm, ext, intents, used>>

\* exactly the remove that deleted the object returns the document
RemRetFound(p) ==
  /\ cur[p].st = "deleted"
  /\ ids' = ids \ {cur[p].id}
  /\ cur' = [cur EXCEPT ![p] = IdleRec]
  /\ UNCHANGED <<doc, idx, maxId, wm, ext, intents, used>>

RemRetNone(p) ==
  /\ cur[p].op = "remove"
  /\ \/ (cur[p].st = "called" /\ (~cur[p].member \/ cur[p].id \notin ids) /\ UNCHANGED ids)
     \/ (cur[p].st = "locked" /\ cur[p].prev = NoDoc /\ ids' = ids \ {cur[p].id})
  /\ cur' = [cur EXCEPT ![p] = IdleRec]
  /\ UNCHANGED <<doc, idx, maxId, wm, ext, intents, used>>

---------------------------------------------------------------------------
(* save_extension *)
ExtArrive(p) ==
  /\ cur[p].st = "called" /\ cur[p].op = "ext" /\ NoExclusive(p) /\ ExtGateFree(p)
  /\ ext' = cur[p].x
  /\ cur' = [cur EXCEPT ![p].st = "meta"]
  /\ UNCHANGED <<doc, ids, idx, maxId, wm, intents, used>>

ExtExec(p, x) ==
  /\ cur[p].st = "meta" /\ cur[p].op = "ext"
  /\ x = ext
  /\ cur' = [cur EXCEPT ![p].st = "meta_done"]
  /\ UNCHANGED <<doc, ids, idx, maxId, wm, ext, intents, used>>

ExtRet(p) ==
  /\ cur[p].st = "meta_done"
  /\ cur' = [cur EXCEPT ![p] = IdleRec]
  /\ UNCHANGED <<doc, ids, idx, maxId, wm, ext, intents, used>>

---------------------------------------------------------------------------
(* flush: exclusive; what it persists is the state at that moment = the    *)
(* state after a prefix of the serial order                                *)
FlushEnter(p) ==
  /\ cur[p].st = "called" /\ cur[p].op = "flush" /\ NoneEntered(p)
  /\ cur' = [cur EXCEPT ![p].st = "flushing"]
  /\ UNCHANGED <<doc, ids, idx, maxId, wm, ext, intents, used>>

\* any further step of the flush; persisted id set / max id / extension are those of the state
FlushStep(p) ==
  /\ cur[p].st = "flushing"
  /\ UNCHANGED cvars

FlushIntentDelete(p, s) ==
  /\ cur[p].st = "flushing" /\ s \in intents
  /\ intents' = intents \ {s}
  /\ UNCHANGED <<doc, ids, idx, maxId, wm, ext, used, cur>>

FlushRet(p) ==
  /\ cur[p].op = "flush"
  /\ \/ cur[p].st = "flushing"
     \/ (cur[p].st = "called" /\ NoneEntered(p))        \* nothing to do: no backend call at all
  /\ cur' = [cur EXCEPT ![p] = IdleRec]
  /\ UNCHANGED <<doc, ids, idx, maxId, wm, ext, intents, used>>

---------------------------------------------------------------------------
(* get: returns a whole document that the id held at some point of the read *)
GetRet(p, v) ==
  /\ cur[p].op = "get"
  /\ \/ (cur[p].st = "reading" /\ v \in cur[p].seen)
     \/ (cur[p].st = "absent" /\ v = NoDoc)
  /\ cur' = [cur EXCEPT ![p] = IdleRec]
  /\ UNCHANGED <<doc, ids, idx, maxId, wm, ext, intents, used>>

---------------------------------------------------------------------------
AllIdle == \A p \in Proc : IsIdle(p)

\* C05: once the calls have returned, documents, indexes and counts equal the result of the order
QuiescentExact ==
  AllIdle => /\ ids = LiveIds(doc)
             /\ \A i \in IdxSet : Obs(i, idx[i]) = Derive(i, doc)

\* C04 under concurrent writers: in every state
UniqueHolds ==
  \A i \in IdxSet : Kind[i] = "btu" =>
     \A q1, q2 \in idx[i].p : q1[2] = q2[2] => q1[1] = q2[1]

\* ids are never handed out twice
DistinctIds ==
  \A p, q \in Proc : p # q /\ cur[p].st \notin {"idle", "called"} /\ cur[q].st \notin {"idle", "called"}
      /\ cur[p].op = "add" /\ cur[q].op = "add" => cur[p].id # cur[q].id
=============================================================================
