CONSTANT N = 5
SPECIFICATION Spec
INVARIANT Laws
INVARIANT Emit
CHECK_DEADLOCK FALSE
