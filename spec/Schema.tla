------------------------------- MODULE Schema -------------------------------
(***************************************************************************)
(* C13: the type system of anda_db_schema as a reference semantics.        *)
(*                                                                         *)
(* What it models (and the code it mirrors, rs/anda_db_schema/src):        *)
(*   VI / FieldValid   FieldType::validate_inner / FieldEntry::validate    *)
(*                     (field.rs) - type, nullability, map key set, key    *)
(*                     variant of wildcard maps, tuple arity, the accepted *)
(*                     read-back shapes                                    *)
(*   ComplexOK         FieldValue::validate_complexity (budget constants   *)
(*                     of FieldValueBudget::default)                       *)
(*   Norm              FieldType::normalize                                *)
(*   Prune             FieldType::prune_undeclared                         *)
(*   Stored            the schema-less read-back of the CBOR encoding      *)
(*                     (value_serde.rs: Serialize + Visitor)               *)
(*   Ex                FieldType::extract (type-driven coercion of CBOR,   *)
(*                     the typed write path Document::try_from)            *)
(*   Canon             the DECLARED VARIANT of a valid value: what the     *)
(*                     property says a read must return.  Defined on its   *)
(*                     own, not through Norm/Stored                        *)
(*   Compat, CanUpgrade, Upgrade, ReadDoc                                  *)
(*                     FieldType::is_compatible_upgrade_of,                *)
(*                     Schema::upgrade_with, Document::try_from_doc        *)
(*   DeriveFT          anda_db_derive::common::determine_field_type        *)
(*                                                                         *)
(* Everything is a tagged tuple so that ToJson prints arrays the harness   *)
(* can rebuild, and so that TLC only ever compares like with like.         *)
(*                                                                         *)
(* Types   <<"bool">> <<"i64">> <<"u64">> <<"f64">> <<"f32">> <<"bytes">>  *)
(*         <<"text">> <<"json">> <<"vector">> <<"option",t>>               *)
(*         <<"array",<<t1,..,tn>>>>   n=0 untyped, n=1 homogeneous, n>=2   *)
(*                                    tuple                                *)
(*         <<"map",<< <<k1,t1>>,.. >>>>   declared entries; wildcard iff   *)
(*                                    exactly one entry under a sentinel   *)
(* Keys    <<"text",s>> <<"i64",a>> <<"bytes",<<u8 atoms>>>>               *)
(* Values  <<"bool",b>> <<"i64",a>> <<"u64",a>> <<"f64",f>> <<"f32",f>>    *)
(*         <<"bytes",<<u8 atoms>>>> <<"text",s>> <<"json",j>>              *)
(*         <<"vector",<<u16 atoms>>>> <<"array",<<v..>>>>                  *)
(*         <<"map",<< <<k,v>>,.. >>>> <<"null">>                           *)
(*         <<"rep",n,v>>  an array of n copies of v, <<"mrep",n,v>> a map  *)
(*         of n generated text keys (budget cases only)                    *)
(* Json    <<"jnull">> <<"jbool",b>> <<"ju64",a>> <<"ji64",a>>             *)
(*         <<"jf64",f>> <<"jstr",s>> <<"jarr",<<j..>>>>                    *)
(*         <<"jobj",<< <<s,j>>,.. >>>> <<"jrep",n,j>> <<"jorep",n,j>>      *)
(* Numbers are ATOMS: strings naming one concrete number each; the facts   *)
(* the semantics needs about them are the tables below (the harness checks *)
(* every table entry against real arithmetic before replaying anything).   *)
(***************************************************************************)
EXTENDS Naturals, Sequences, FiniteSets, SequencesExt

---------------------------------------------------------------------------
(* Integer atoms.                                                          *)
IntAtoms == <<"i64min", "-1", "0", "1", "42", "255", "256", "32640", "32704", "32768", "65408", "65535",
              "65536", "i64max", "i64max+1", "u64max">>
Neg(a)       == a \in {"i64min", "-1"}
FitsI64(a)   == a \notin {"i64max+1", "u64max"}
FitsU64(a)   == ~Neg(a)
U8Atoms      == {"0", "1", "42", "255"}
U16Atoms     == U8Atoms \cup {"256", "32640", "32704", "32768", "65408", "65535"}
FitsU8(a)    == a \in U8Atoms
FitsU16(a)   == a \in U16Atoms

(* Float atoms.  The same name denotes the same real number as f32 and as  *)
(* f64 ("2.71f" is the f32 nearest to 2.71, exactly representable in f64;  *)
(* "2.71" is the f64 nearest to 2.71, NOT an f32).                         *)
F64Atoms == <<"0.0", "-0.0", "1.5", "2.71", "2.71f", "2.7100000000001", "f32sub", "f64sub", "1e39", "f32max",
              "inf", "-inf", "nan">>
F32Atoms == <<"0.0", "-0.0", "1.5", "2.71f", "f32sub", "f32max", "inf", "-inf", "nan">>
IsNaN(f)   == f = "nan"
Finite(f)  == f \notin {"inf", "-inf", "nan"}
\* `f as f32`
RoundF32(f) == CASE f = "2.71" -> "2.71f" [] f = "2.7100000000001" -> "2.71f" [] f = "f64sub" -> "0.0"
                 [] f = "1e39" -> "inf" [] OTHER -> f
\* a finite f64 beyond the f32 range is not an F32 (FieldValue::f32_from)
F32InRange(f) == ~IsNaN(f) /\ ~(Finite(f) /\ ~Finite(RoundF32(f)))
\* is_f32_read_back: exact widening of an f32, or the f64 parse of its shortest decimal
F32ReadBack(f) == f \in {"0.0", "-0.0", "1.5", "2.71f", "f32sub", "f32max", "inf", "-inf", "2.71"}

(* Budget: FieldValueBudget::default().                                    *)
MaxDepth == 64
MaxNodes == 16384
MaxArrayLen == 4096
MaxMapEntries == 4096

---------------------------------------------------------------------------
Err == <<"err">>
Null == <<"null">>
IsErr(x) == x[1] = "err"

TextWild  == <<"text", "*">>
BytesWild == <<"bytes", <<"42">>>>          \* b"*"
I64Wild   == <<"i64", "i64min">>
IsSentinel(k) == (k[1] = "text" /\ k = TextWild) \/ (k[1] = "bytes" /\ k = BytesWild) \/ (k[1] = "i64" /\ k = I64Wild)
\* as_wildcard_map
IsWild(es) == Len(es) = 1 /\ IsSentinel(es[1][1])

SameKey(k1, k2) == k1[1] = k2[1] /\ k1 = k2
\* position of key k among entries <<key, x>>, 0 when absent
Find(es, k) == LET S == {i \in 1..Len(es) : SameKey(es[i][1], k)} IN IF S = {} THEN 0 ELSE CHOOSE i \in S : TRUE

IsArr(v) == v[1] = "array" \/ v[1] = "rep"
ArrLen(v) == IF v[1] = "array" THEN Len(v[2]) ELSE v[2]
\* the positions that have to be looked at to say something about ALL elements
ArrIdx(v) == IF v[1] = "array" THEN 1..Len(v[2]) ELSE IF v[2] > 0 THEN {1} ELSE {}
Elem(v, i) == IF v[1] = "array" THEN v[2][i] ELSE v[3]
IsMap(v) == v[1] = "map" \/ v[1] = "mrep"
MapLen(v) == IF v[1] = "map" THEN Len(v[2]) ELSE v[2]

\* TLC evaluates [i \in 1..n |-> e] lazily and again on every application: Mat forces it into a tuple once
Mat(f) == f \o <<>>
RECURSIVE SumF(_, _)
SumF(f, n) == IF n = 0 THEN 0 ELSE f[n] + SumF(f, n - 1)
SetMax(S) == IF S = {} THEN 0 ELSE CHOOSE x \in S : \A y \in S : x >= y
MaxF(f, n) == SetMax({f[i] : i \in 1..n})

---------------------------------------------------------------------------
(* Complexity budget.  Height = depth of the deepest node below the root;  *)
(* a Json payload's root is one level below its FieldValue.                *)
RECURSIVE JNodes(_), JHeight(_), JLensOK(_)
JNodes(j) ==
  CASE j[1] = "jarr"  -> 1 + SumF(Mat([i \in 1..Len(j[2]) |-> JNodes(j[2][i])]), Len(j[2]))
    [] j[1] = "jobj"  -> 1 + SumF(Mat([i \in 1..Len(j[2]) |-> JNodes(j[2][i][2])]), Len(j[2]))
    [] j[1] = "jrep"  -> 1 + j[2] * JNodes(j[3])
    [] j[1] = "jorep" -> 1 + j[2] * JNodes(j[3])
    [] OTHER -> 1
JHeight(j) ==
  CASE j[1] = "jarr"  -> IF Len(j[2]) = 0 THEN 0 ELSE 1 + MaxF(Mat([i \in 1..Len(j[2]) |-> JHeight(j[2][i])]), Len(j[2]))
    [] j[1] = "jobj"  -> IF Len(j[2]) = 0 THEN 0 ELSE 1 + MaxF(Mat([i \in 1..Len(j[2]) |-> JHeight(j[2][i][2])]), Len(j[2]))
    [] j[1] = "jrep"  -> IF j[2] = 0 THEN 0 ELSE 1 + JHeight(j[3])
    [] j[1] = "jorep" -> IF j[2] = 0 THEN 0 ELSE 1 + JHeight(j[3])
    [] OTHER -> 0
JLensOK(j) ==
  CASE j[1] = "jarr"  -> Len(j[2]) <= MaxArrayLen /\ \A i \in 1..Len(j[2]) : JLensOK(j[2][i])
    [] j[1] = "jobj"  -> Len(j[2]) <= MaxMapEntries /\ \A i \in 1..Len(j[2]) : JLensOK(j[2][i][2])
    [] j[1] = "jrep"  -> j[2] <= MaxArrayLen /\ (j[2] > 0 => JLensOK(j[3]))
    [] j[1] = "jorep" -> j[2] <= MaxMapEntries /\ (j[2] > 0 => JLensOK(j[3]))
    [] OTHER -> TRUE

RECURSIVE Nodes(_), Height(_), LensOK(_)
Nodes(v) ==
  CASE v[1] = "array" -> 1 + SumF(Mat([i \in 1..Len(v[2]) |-> Nodes(v[2][i])]), Len(v[2]))
    [] v[1] = "map"   -> 1 + SumF(Mat([i \in 1..Len(v[2]) |-> Nodes(v[2][i][2])]), Len(v[2]))
    [] v[1] = "rep"   -> 1 + v[2] * Nodes(v[3])
    [] v[1] = "mrep"  -> 1 + v[2] * Nodes(v[3])
    [] v[1] = "json"  -> 1 + JNodes(v[2])
    [] OTHER -> 1
Height(v) ==
  CASE v[1] = "array" -> IF Len(v[2]) = 0 THEN 0 ELSE 1 + MaxF(Mat([i \in 1..Len(v[2]) |-> Height(v[2][i])]), Len(v[2]))
    [] v[1] = "map"   -> IF Len(v[2]) = 0 THEN 0 ELSE 1 + MaxF(Mat([i \in 1..Len(v[2]) |-> Height(v[2][i][2])]), Len(v[2]))
    [] v[1] = "rep"   -> IF v[2] = 0 THEN 0 ELSE 1 + Height(v[3])
    [] v[1] = "mrep"  -> IF v[2] = 0 THEN 0 ELSE 1 + Height(v[3])
    [] v[1] = "json"  -> 1 + JHeight(v[2])
    [] OTHER -> 0
LensOK(v) ==
  CASE v[1] = "array" -> Len(v[2]) <= MaxArrayLen /\ \A i \in 1..Len(v[2]) : LensOK(v[2][i])
    [] v[1] = "map"   -> Len(v[2]) <= MaxMapEntries /\ \A i \in 1..Len(v[2]) : LensOK(v[2][i][2])
    [] v[1] = "rep"   -> v[2] <= MaxArrayLen /\ (v[2] > 0 => LensOK(v[3]))
    [] v[1] = "mrep"  -> v[2] <= MaxMapEntries /\ (v[2] > 0 => LensOK(v[3]))
    [] v[1] = "json"  -> JLensOK(v[2])
    [] OTHER -> TRUE
ComplexOK(v) == Nodes(v) <= MaxNodes /\ Height(v) <= MaxDepth /\ LensOK(v)

---------------------------------------------------------------------------
(* Structural validity: FieldType::validate_inner.                         *)
RECURSIVE VI(_, _)
VI(t, v) ==
  CASE t[1] = "bool"   -> v[1] = "bool"
    [] t[1] = "i64"    -> v[1] = "i64" \/ (v[1] = "u64" /\ FitsI64(v[2]))
    [] t[1] = "u64"    -> v[1] = "u64"
    [] t[1] = "f64"    -> v[1] = "f64" /\ ~IsNaN(v[2])
    [] t[1] = "f32"    -> (v[1] = "f32" /\ ~IsNaN(v[2])) \/ (v[1] = "f64" /\ F32ReadBack(v[2]))
    [] t[1] = "bytes"  -> v[1] = "bytes"
    [] t[1] = "text"   -> v[1] = "text"
    [] t[1] = "json"   -> TRUE
    [] t[1] = "vector" -> v[1] = "vector"
                          \/ (IsArr(v) /\ \A i \in ArrIdx(v) : Elem(v, i)[1] = "u64" /\ FitsU16(Elem(v, i)[2]))
    [] t[1] = "array"  ->
         /\ IsArr(v)
         /\ LET ts == t[2] IN
            CASE Len(ts) = 0 -> TRUE
              [] Len(ts) = 1 -> \A i \in ArrIdx(v) : VI(ts[1], Elem(v, i))
              [] OTHER       -> ArrLen(v) = Len(ts) /\ \A i \in 1..Len(ts) : VI(ts[i], Elem(v, i))
    [] t[1] = "map"    ->
         /\ IsMap(v)
         /\ LET es == t[2] IN
            CASE Len(es) = 0 -> TRUE
              [] IsWild(es)  ->
                   IF v[1] = "mrep" THEN es[1][1][1] = "text" /\ (v[2] > 0 => VI(es[1][2], v[3]))
                   ELSE \A i \in 1..Len(v[2]) : v[2][i][1][1] = es[1][1][1] /\ VI(es[1][2], v[2][i][2])
              [] OTHER       ->
                   /\ v[1] = "map"
                   /\ \A i \in 1..Len(v[2]) : Find(es, v[2][i][1]) # 0
                   /\ \A j \in 1..Len(es) : LET i == Find(v[2], es[j][1])
                                            IN VI(es[j][2], IF i = 0 THEN Null ELSE v[2][i][2])
    [] t[1] = "option" -> v[1] = "null" \/ VI(t[2], v)

\* FieldEntry::validate: Null only for Option fields, else budget + structure
FieldValid(t, v) == IF v[1] = "null" THEN t[1] = "option" ELSE ComplexOK(v) /\ VI(t, v)

---------------------------------------------------------------------------
(* Value -> JSON (FieldValue -> CBOR -> serde_json::Value), partial.       *)
JFail == <<"fail">>
RECURSIVE ToJ(_)
ToJ(v) ==
  CASE v[1] = "bool"   -> <<"jbool", v[2]>>
    [] v[1] = "i64"    -> IF Neg(v[2]) THEN <<"ji64", v[2]>> ELSE <<"ju64", v[2]>>
    [] v[1] = "u64"    -> <<"ju64", v[2]>>
    [] v[1] = "f64"    -> IF Finite(v[2]) THEN <<"jf64", v[2]>> ELSE <<"jnull">>     \* serde_json has no inf / NaN
    [] v[1] = "f32"    -> IF Finite(v[2]) THEN <<"jf64", v[2]>> ELSE <<"jnull">>
    [] v[1] = "bytes"  -> JFail
    [] v[1] = "text"   -> <<"jstr", v[2]>>
    [] v[1] = "json"   -> v[2]
    [] v[1] = "vector" -> <<"jarr", Mat([i \in 1..Len(v[2]) |-> <<"ju64", v[2][i]>>])>>
    [] v[1] = "array"  -> LET js == Mat([i \in 1..Len(v[2]) |-> ToJ(v[2][i])])
                          IN IF \E i \in 1..Len(js) : js[i][1] = "fail" THEN JFail ELSE <<"jarr", js>>
    [] v[1] = "map"    -> LET js == Mat([i \in 1..Len(v[2]) |-> ToJ(v[2][i][2])])
                          IN IF \E i \in 1..Len(js) : js[i][1] = "fail" \/ v[2][i][1][1] # "text" THEN JFail
                             ELSE <<"jobj", Mat([i \in 1..Len(js) |-> <<v[2][i][1][2], js[i]>>])>>
    [] v[1] = "null"   -> <<"jnull">>
    [] v[1] = "rep"    -> LET j == ToJ(v[3]) IN IF j[1] = "fail" /\ v[2] > 0 THEN JFail ELSE <<"jrep", v[2], j>>
    [] v[1] = "mrep"   -> LET j == ToJ(v[3]) IN IF j[1] = "fail" /\ v[2] > 0 THEN JFail ELSE <<"jorep", v[2], j>>
    [] OTHER -> JFail

(* JSON -> the generic value its CBOR reads back as.                       *)
RECURSIVE Shape(_)
Shape(j) ==
  CASE j[1] = "jnull" -> Null
    [] j[1] = "jbool" -> <<"bool", j[2]>>
    [] j[1] = "ju64"  -> <<"u64", j[2]>>
    [] j[1] = "ji64"  -> <<"i64", j[2]>>
    [] j[1] = "jf64"  -> <<"f64", j[2]>>
    [] j[1] = "jstr"  -> <<"text", j[2]>>
    [] j[1] = "jarr"  -> <<"array", Mat([i \in 1..Len(j[2]) |-> Shape(j[2][i])])>>
    [] j[1] = "jobj"  -> <<"map", Mat([i \in 1..Len(j[2]) |-> << <<"text", j[2][i][1]>>, Shape(j[2][i][2]) >>])>>
    [] j[1] = "jrep"  -> <<"rep", j[2], Shape(j[3])>>
    [] j[1] = "jorep" -> <<"mrep", j[2], Shape(j[3])>>

(* The schema-less read-back of a stored value: non-negative I64 -> U64,   *)
(* F32 -> F64 (exact widening: same atom), Vector -> array of bit patterns,*)
(* Json -> the shape of its payload.  NaN cannot be stored at all.         *)
RECURSIVE HasNaN(_), Stored(_)
HasNaN(v) ==
  CASE v[1] = "f64" -> IsNaN(v[2]) [] v[1] = "f32" -> IsNaN(v[2])
    [] v[1] = "array" -> \E i \in 1..Len(v[2]) : HasNaN(v[2][i])
    [] v[1] = "map"   -> \E i \in 1..Len(v[2]) : HasNaN(v[2][i][2])
    [] v[1] = "rep"   -> v[2] > 0 /\ HasNaN(v[3])
    [] v[1] = "mrep"  -> v[2] > 0 /\ HasNaN(v[3])
    [] OTHER -> FALSE
Stored(v) ==
  CASE v[1] = "i64"    -> IF Neg(v[2]) THEN v ELSE <<"u64", v[2]>>
    [] v[1] = "f32"    -> <<"f64", v[2]>>
    [] v[1] = "json"   -> Shape(v[2])
    [] v[1] = "vector" -> <<"array", Mat([i \in 1..Len(v[2]) |-> <<"u64", v[2][i]>>])>>
    [] v[1] = "array"  -> <<"array", Mat([i \in 1..Len(v[2]) |-> Stored(v[2][i])])>>
    [] v[1] = "map"    -> <<"map", Mat([i \in 1..Len(v[2]) |-> <<v[2][i][1], Stored(v[2][i][2])>>])>>
    [] v[1] = "rep"    -> <<"rep", v[2], Stored(v[3])>>
    [] v[1] = "mrep"   -> <<"mrep", v[2], Stored(v[3])>>
    [] OTHER -> v

---------------------------------------------------------------------------
(* FieldType::normalize (what the code does on set_field and on read).     *)
AllU16(v) == v[1] = "array" /\ \A i \in 1..Len(v[2]) : v[2][i][1] = "u64" /\ FitsU16(v[2][i][2])
RECURSIVE Norm(_, _)
Norm(t, v) ==
  CASE t[1] = "i64"    -> IF v[1] = "u64" /\ FitsI64(v[2]) THEN <<"i64", v[2]>> ELSE v
    [] t[1] = "f32"    -> IF v[1] = "f64" /\ F32ReadBack(v[2]) THEN <<"f32", RoundF32(v[2])>> ELSE v
    [] t[1] = "vector" -> IF AllU16(v) THEN <<"vector", Mat([i \in 1..Len(v[2]) |-> v[2][i][2]])>> ELSE v
    [] t[1] = "json"   -> IF v[1] = "json" THEN v
                          ELSE LET j == ToJ(v) IN IF j[1] = "fail" THEN v ELSE <<"json", j>>
    [] t[1] = "array"  ->
         IF v[1] # "array" THEN v
         ELSE LET ts == t[2] s == v[2] IN
              CASE Len(ts) = 0 -> v
                [] Len(ts) = 1 -> <<"array", Mat([i \in 1..Len(s) |-> Norm(ts[1], s[i])])>>
                [] OTHER       -> <<"array", Mat([i \in 1..Len(s) |-> IF i <= Len(ts) THEN Norm(ts[i], s[i]) ELSE s[i]])>>
    [] t[1] = "map"    ->
         IF v[1] # "map" THEN v
         ELSE LET es == t[2] s == v[2] IN
              IF IsWild(es) THEN <<"map", Mat([i \in 1..Len(s) |-> <<s[i][1], Norm(es[1][2], s[i][2])>>])>>
              ELSE <<"map", Mat([i \in 1..Len(s) |-> LET j == Find(es, s[i][1])
                                                 IN <<s[i][1], IF j = 0 THEN s[i][2] ELSE Norm(es[j][2], s[i][2])>>])>>
    [] t[1] = "option" -> IF v[1] = "null" THEN v ELSE Norm(t[2], v)
    [] OTHER -> v

(* FieldType::prune_undeclared.                                            *)
RECURSIVE Prune(_, _)
Prune(t, v) ==
  CASE t[1] = "array"  ->
         IF v[1] # "array" THEN v
         ELSE LET ts == t[2] s == v[2] IN
              CASE Len(ts) = 0 -> v
                [] Len(ts) = 1 -> <<"array", Mat([i \in 1..Len(s) |-> Prune(ts[1], s[i])])>>
                [] OTHER       -> <<"array", Mat([i \in 1..Len(s) |-> IF i <= Len(ts) THEN Prune(ts[i], s[i]) ELSE s[i]])>>
    [] t[1] = "map"    ->
         IF v[1] # "map" \/ Len(t[2]) = 0 THEN v
         ELSE LET es == t[2] s == v[2] IN
              IF IsWild(es) THEN <<"map", Mat([i \in 1..Len(s) |-> <<s[i][1], Prune(es[1][2], s[i][2])>>])>>
              ELSE LET kept == SelectSeq(s, LAMBDA e : Find(es, e[1]) # 0)
                   IN <<"map", Mat([i \in 1..Len(kept) |-> <<kept[i][1], Prune(es[Find(es, kept[i][1])][2], kept[i][2])>>])>>
    [] t[1] = "option" -> IF v[1] = "null" THEN v ELSE Prune(t[2], v)
    [] OTHER -> v

\* the read path of Document::try_from_doc for one field whose stored (canonical or not) value is w
Back(t, w) == Norm(t, Prune(t, Stored(w)))

---------------------------------------------------------------------------
(* The declared variant of a VALID value (the property's normal form).     *)
(* Where the type declares nothing - untyped array, untyped map, a value   *)
(* under Json that has no JSON form - the generic stored shape is the      *)
(* declared variant; a null under Option is Null whatever produced it.     *)
RECURSIVE Canon(_, _)
Canon(t, v) ==
  CASE t[1] = "i64"    -> <<"i64", v[2]>>
    [] t[1] = "f32"    -> IF v[1] = "f32" THEN v ELSE <<"f32", RoundF32(v[2])>>
    [] t[1] = "vector" -> IF v[1] = "vector" THEN v ELSE <<"vector", Mat([i \in 1..Len(v[2]) |-> v[2][i][2]])>>
    [] t[1] = "json"   -> LET j == ToJ(v) IN IF j[1] = "fail" THEN Stored(v) ELSE <<"json", j>>
    [] t[1] = "array"  ->
         LET ts == t[2] s == v[2] IN
         CASE Len(ts) = 0 -> Stored(v)
           [] Len(ts) = 1 -> <<"array", Mat([i \in 1..Len(s) |-> Canon(ts[1], s[i])])>>
           [] OTHER       -> <<"array", Mat([i \in 1..Len(s) |-> Canon(ts[i], s[i])])>>
    [] t[1] = "map"    ->
         LET es == t[2] s == v[2] IN
         CASE Len(es) = 0 -> Stored(v)
           [] IsWild(es)  -> <<"map", Mat([i \in 1..Len(s) |-> <<s[i][1], Canon(es[1][2], s[i][2])>>])>>
           [] OTHER       -> <<"map", Mat([i \in 1..Len(s) |-> <<s[i][1], Canon(es[Find(es, s[i][1])][2], s[i][2])>>])>>
    [] t[1] = "option" -> IF v[1] = "null" THEN v
                          ELSE LET c == Canon(t[2], v)
                               IN IF c[1] = "json" /\ c[2][1] = "jnull" THEN Null ELSE c
    [] OTHER -> v

---------------------------------------------------------------------------
(* FieldType::extract over the generic shape s of a CBOR value (typed      *)
(* write path).  More liberal than VI in two places (an f64 is rounded to  *)
(* F32; an array of u8 is Bytes), stricter in one (Json needs a JSON form).*)
RECURSIVE Ex(_, _)
Ex(t, s) ==
  CASE t[1] = "bool"   -> IF s[1] = "bool" THEN s ELSE Err
    [] t[1] = "i64"    -> IF s[1] = "i64" \/ (s[1] = "u64" /\ FitsI64(s[2])) THEN <<"i64", s[2]>> ELSE Err
    [] t[1] = "u64"    -> IF s[1] = "u64" THEN s ELSE Err
    [] t[1] = "f64"    -> IF s[1] = "f64" /\ ~IsNaN(s[2]) THEN s ELSE Err
    [] t[1] = "f32"    -> IF s[1] = "f64" /\ F32InRange(s[2]) THEN <<"f32", RoundF32(s[2])>> ELSE Err
    [] t[1] = "bytes"  -> IF s[1] = "bytes" THEN s
                          ELSE IF s[1] = "array" /\ \A i \in 1..Len(s[2]) : s[2][i][1] = "u64" /\ FitsU8(s[2][i][2])
                               THEN <<"bytes", Mat([i \in 1..Len(s[2]) |-> s[2][i][2]])>> ELSE Err
    [] t[1] = "text"   -> IF s[1] = "text" THEN s ELSE Err
    [] t[1] = "json"   -> LET j == ToJ(s) IN IF j[1] = "fail" THEN Err ELSE <<"json", j>>
    [] t[1] = "vector" -> IF AllU16(s) THEN <<"vector", Mat([i \in 1..Len(s[2]) |-> s[2][i][2]])>> ELSE Err
    [] t[1] = "array"  ->
         IF s[1] = "rep" THEN
              (IF Len(t[2]) = 0 THEN s
               ELSE IF Len(t[2]) = 1 THEN (LET x == Ex(t[2][1], s[3]) IN IF s[2] > 0 /\ IsErr(x) THEN Err ELSE <<"rep", s[2], x>>)
               ELSE Err)
         ELSE IF s[1] # "array" THEN Err
         ELSE LET ts == t[2] IN
              CASE Len(ts) = 0 -> IF HasNaN(s) THEN Err ELSE s          \* generic FieldValue::try_from
                [] Len(ts) = 1 -> LET xs == Mat([i \in 1..Len(s[2]) |-> Ex(ts[1], s[2][i])])
                                  IN IF \E i \in 1..Len(xs) : IsErr(xs[i]) THEN Err ELSE <<"array", xs>>
                [] OTHER       -> IF Len(s[2]) # Len(ts) THEN Err
                                  ELSE LET xs == Mat([i \in 1..Len(ts) |-> Ex(ts[i], s[2][i])])
                                       IN IF \E i \in 1..Len(xs) : IsErr(xs[i]) THEN Err ELSE <<"array", xs>>
    [] t[1] = "map"    ->
         IF s[1] = "mrep" THEN
              (IF Len(t[2]) = 0 THEN s
               ELSE IF IsWild(t[2]) /\ t[2][1][1][1] = "text"
                    THEN (LET x == Ex(t[2][1][2], s[3]) IN IF s[2] > 0 /\ IsErr(x) THEN Err ELSE <<"mrep", s[2], x>>)
               ELSE Err)
         ELSE IF s[1] # "map" THEN Err
         ELSE LET es == t[2] m == s[2] IN
              CASE Len(es) = 0 -> IF HasNaN(s) THEN Err ELSE s
                [] IsWild(es)  ->
                     LET xs == Mat([i \in 1..Len(m) |-> IF m[i][1][1] # es[1][1][1] THEN Err ELSE Ex(es[1][2], m[i][2])])
                     IN IF \E i \in 1..Len(xs) : IsErr(xs[i]) THEN Err
                        ELSE <<"map", Mat([i \in 1..Len(m) |-> <<m[i][1], xs[i]>>])>>
                [] OTHER       ->
                     LET xs == Mat([i \in 1..Len(m) |-> LET j == Find(es, m[i][1])
                                                    IN IF j = 0 THEN Err ELSE Ex(es[j][2], m[i][2])])
                     IN IF \E i \in 1..Len(xs) : IsErr(xs[i]) THEN Err
                        \* a missing key must be one whose type validates Null (Option, or Json)
                        ELSE IF \E j \in 1..Len(es) : Find(m, es[j][1]) = 0 /\ ~VI(es[j][2], Null) THEN Err
                        ELSE <<"map", Mat([i \in 1..Len(m) |-> <<m[i][1], xs[i]>>])>>
    [] t[1] = "option" -> IF s[1] = "null" THEN s ELSE Ex(t[2], s)

\* FieldEntry::coerce: Null is only validated; anything else goes through its CBOR form, extract and the budget
Coerce(t, v) == IF v[1] = "null" THEN (IF t[1] = "option" THEN v ELSE Err)
                ELSE LET x == Ex(t, Stored(v)) IN IF IsErr(x) THEN Err ELSE IF ComplexOK(x) THEN x ELSE Err
\* Document::try_from for one field: serialise (a NaN cannot be), extract, budget
Typed(t, v) == IF HasNaN(v) THEN Err
               ELSE LET x == Ex(t, Stored(v)) IN IF IsErr(x) THEN Err ELSE IF ComplexOK(x) THEN x ELSE Err

---------------------------------------------------------------------------
(* Schema evolution.                                                       *)
RECURSIVE Compat(_, _)
Compat(n, o) ==
  IF n[1] = "array" /\ o[1] = "array"
  THEN Len(n[2]) = Len(o[2]) /\ \A i \in 1..Len(n[2]) : Compat(n[2][i], o[2][i])
  ELSE IF n[1] = "map" /\ o[1] = "map"
  THEN IF IsWild(n[2]) /\ IsWild(o[2]) THEN SameKey(n[2][1][1], o[2][1][1]) /\ Compat(n[2][1][2], o[2][1][2])
       ELSE IF IsWild(n[2]) \/ IsWild(o[2]) THEN FALSE
       ELSE \A i \in 1..Len(n[2]) : LET j == Find(o[2], n[2][i][1])
                                    IN IF j = 0 THEN n[2][i][2][1] = "option" ELSE Compat(n[2][i][2], o[2][j][2])
  ELSE IF n[1] = "option" /\ o[1] = "option" THEN Compat(n[2], o[2])
  ELSE n[1] = o[1] /\ n = o

(* A declaration is a sequence of <<name, type, unique>> in NAME ORDER (the *)
(* order of the crate's BTreeMap); a schema adds the stable idx of every   *)
(* field and the allocation watermark.  idx 0 (_id) is implicit.           *)
FindName(fs, name) == LET S == {i \in 1..Len(fs) : fs[i][1] = name} IN IF S = {} THEN 0 ELSE CHOOSE i \in S : TRUE

\* SchemaBuilder: fields added in the order of the declaration
Build(decl, ver) == [ver |-> ver, next |-> Len(decl) + 1,
                     fields |-> Mat([i \in 1..Len(decl) |-> <<decl[i][1], decl[i][2], decl[i][3], i>>])]

CanUpgrade(decl, ver, old) ==
  /\ ver > old.ver
  /\ \A i \in 1..Len(decl) : LET j == FindName(old.fields, decl[i][1])
                             IN IF j = 0 THEN decl[i][2][1] = "option"
                                ELSE Compat(decl[i][2], old.fields[j][2]) /\ decl[i][3] = old.fields[j][3]
\* inherited fields keep their idx, new ones are numbered from the old watermark in name order
Upgrade(decl, ver, old) ==
  LET isNew(i) == FindName(old.fields, decl[i][1]) = 0
      rank(i) == Cardinality({k \in 1..i : isNew(k)})
  IN [ver |-> ver, next |-> old.next + Cardinality({k \in 1..Len(decl) : isNew(k)}),
      fields |-> Mat([i \in 1..Len(decl) |->
                    <<decl[i][1], decl[i][2], decl[i][3],
                      IF isNew(i) THEN old.next + rank(i) - 1 ELSE old.fields[FindName(old.fields, decl[i][1])][4]>>])]

FindIdx(fs, idx) == LET S == {i \in 1..Len(fs) : fs[i][4] = idx} IN IF S = {} THEN 0 ELSE CHOOSE i \in S : TRUE

(* A stored document is a sequence of <<idx, value>>.  ReadDoc mirrors      *)
(* try_from_doc: refuse never-allocated indexes, drop retired ones, prune   *)
(* + normalise, validate, require the required.                             *)
ReadDoc(s, doc) ==
  IF \E i \in 1..Len(doc) : doc[i][1] >= s.next THEN Err
  ELSE LET kept == SelectSeq(doc, LAMBDA e : FindIdx(s.fields, e[1]) # 0)
           out  == Mat([i \in 1..Len(kept) |-> LET t == s.fields[FindIdx(s.fields, kept[i][1])][2]
                                           IN <<kept[i][1], Norm(t, Prune(t, kept[i][2]))>>])
       IN IF /\ \A i \in 1..Len(out) : FieldValid(s.fields[FindIdx(s.fields, out[i][1])][2], out[i][2])
             /\ \A k \in 1..Len(s.fields) : s.fields[k][2][1] # "option" => \E i \in 1..Len(out) : out[i][1] = s.fields[k][4]
          THEN <<"ok", out>> ELSE Err

StoredDoc(doc) == Mat([i \in 1..Len(doc) |-> <<doc[i][1], Stored(doc[i][2])>>])

---------------------------------------------------------------------------
(* The derive macros: Rust type -> FieldType (determine_field_type).       *)
(* Rust types: <<"bool">> <<"i8">>.. <<"isize">> <<"u8">>.. <<"usize">>    *)
(* <<"f32">> <<"f64">> <<"string">> <<"json">> <<"bf16">> <<"bytebuf">>    *)
(* <<"opt",r>> <<"vec",r>> <<"set",r>> <<"arr",r>> <<"box",r>>             *)
(* <<"rmap",keyrust,r>> <<"struct",<< <<name,r>>,.. >>>>                   *)
SignedInts == {"i8", "i16", "i32", "i64", "isize"}
UnsignedInts == {"u8", "u16", "u32", "u64", "usize"}
RECURSIVE DeriveFT(_)
DeriveFT(r) ==
  CASE r[1] = "bool" -> <<"bool">>
    [] r[1] \in SignedInts -> <<"i64">>
    [] r[1] \in UnsignedInts -> <<"u64">>
    [] r[1] = "f32" -> <<"f32">> [] r[1] = "f64" -> <<"f64">>
    [] r[1] = "string" -> <<"text">> [] r[1] = "json" -> <<"json">> [] r[1] = "bytebuf" -> <<"bytes">>
    [] r[1] = "opt" -> <<"option", DeriveFT(r[2])>>
    [] r[1] \in {"vec", "set", "arr"} ->
         IF r[2][1] = "u8" THEN <<"bytes">> ELSE IF r[2][1] = "bf16" THEN <<"vector">>
         ELSE <<"array", <<DeriveFT(r[2])>>>>
    [] r[1] = "box" -> DeriveFT(r[2])
    [] r[1] = "rmap" -> <<"map", << << (IF r[2][1] = "string" THEN TextWild
                                        ELSE IF r[2][1] \in SignedInts THEN I64Wild ELSE BytesWild), DeriveFT(r[3]) >> >>>>
    [] r[1] = "struct" -> <<"map", Mat([i \in 1..Len(r[2]) |-> << <<"text", r[2][i][1]>>, DeriveFT(r[2][i][2]) >>])>>
=============================================================================
