---------------------------- MODULE HistoryTrace ----------------------------
(***************************************************************************)
(* C18: trace validation.  After every committed statement the driver      *)
(* records the battery live ("live" event: Commit); after EVERY later      *)
(* statement it replays every earlier point AS OF SEQ s (and periodically  *)
(* AS OF TX / AS OF TIME of that point): each answer must be AsOf(s).      *)
(* "payload" events list, per assertion / evidence record, the digest of   *)
(* its epistemic payload in every version of the version log: all equal.   *)
(***************************************************************************)
EXTENDS History, Json, IOUtils, TLC, TLCExt

Rec == ndJsonDeserialize(IOEnv.TRACE)
VARIABLES l, nq
tvars == <<hvars2, l, nq>>
Ev == Rec[l]
IsEv(e) == l <= Len(Rec) /\ Ev.e = e /\ l' = l + 1

TrReset == IsEv("reset") /\ snap' = << >> /\ points' = {} /\ nq' = Ev.nq
TrLive ==
  /\ IsEv("live")
  /\ Ev.s \notin points /\ \A t \in points : t < Ev.s
  /\ points' = points \cup {Ev.s}
  /\ snap' = [t \in points \cup {Ev.s} |-> IF t = Ev.s THEN Ev.d ELSE snap[t]]
  /\ UNCHANGED nq
TrAsOf ==
  /\ IsEv("asof")
  /\ Ev.s \in points
  /\ Ev.d = AsOf(Ev.s)                      \* exactly what was current then, for every query of the battery
  /\ UNCHANGED <<hvars2, nq>>
TrPayload ==
  /\ IsEv("payload")
  /\ \A i, j \in 1..Len(Ev.versions) : Ev.versions[i] = Ev.versions[j]
  /\ UNCHANGED <<hvars2, nq>>

TraceInit == Init /\ l = 2 /\ nq = 0
TraceNext == TrReset \/ TrLive \/ TrAsOf \/ TrPayload
TraceSpec == TraceInit /\ [][TraceNext]_tvars

\* append-only within one history (a "reset" event starts the next one)
AppendOnlyT == [][(l <= Len(Rec) /\ Rec[l].e # "reset") => \A s \in points : s \in points' /\ snap'[s] = snap[s]]_tvars

TraceAccepted ==
  LET d == TLCGet("stats").diameter IN
  IF d = Len(Rec) THEN TRUE
  ELSE /\ PrintT(<<"TRACE_REJECTED", d + 1, ToJson(Rec[d + 1])>>)
       /\ FALSE
=============================================================================
