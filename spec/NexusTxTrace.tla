---------------------------- MODULE NexusTxTrace ----------------------------
(***************************************************************************)
(* C17: trace validation of statement histories on the real nexus          *)
(* (harness/src/bin/drive_nexus.rs).  Before and after every statement the *)
(* whole store is dumped - every row of every element collection incl.     *)
(* engine state and version, the transaction journal, the version log, the *)
(* space row, and the maps proposition tuple -> element and (type, key) -> *)
(* concept.  Each statement event carries its outcome:                     *)
(*   refused / dryrun / noeffect : the dump must be unchanged (Refuse)     *)
(*   committed at seq s          : CommitOK(s)                             *)
(* Tuple and key uniqueness are evaluated on every dump.                   *)
(***************************************************************************)
EXTENDS NexusTx, Json, IOUtils, TLC, TLCExt

Rec == ndJsonDeserialize(IOEnv.TRACE)
SeqToSet(s) == {s[j] : j \in 1..Len(s)}
Hdr == Rec[1]
TrElem == 1..Hdr.maxid
TrMaxVer == Hdr.maxver + 1

VARIABLES l, tuples, keys
tvars == <<nvars, l, tuples, keys>>
Ev == Rec[l]
IsEv(e) == l <= Len(Rec) /\ Ev.e = e /\ l' = l + 1

ObsElems(st) == [e \in Elem |-> IF \E j \in 1..Len(st.elems) : st.elems[j][1] = e
                                THEN LET x == st.elems[CHOOSE j \in 1..Len(st.elems) : st.elems[j][1] = e]
                                     IN [ver |-> x[2], st |-> x[3], dg |-> x[4]]
                                ELSE Absent]
ObsVlog(st) == [e \in Elem |-> IF \E j \in 1..Len(st.vlog) : st.vlog[j][1] = e
                               THEN SeqToSet(st.vlog[CHOOSE j \in 1..Len(st.vlog) : st.vlog[j][1] = e][2]) ELSE {}]
Bind(st) ==
  /\ elems' = ObsElems(st) /\ vlog' = ObsVlog(st) /\ journal' = SeqToSet(st.journal) /\ seq' = st.space_seq
  /\ tuples' = {<<st.tuples[j][1], st.tuples[j][2]>> : j \in 1..Len(st.tuples)}
  /\ keys' = {<<st.keys[j][1], st.keys[j][2]>> : j \in 1..Len(st.keys)}

TrReset == IsEv("reset") /\ elems' = [e \in Elem |-> Absent] /\ journal' = {} /\ vlog' = [e \in Elem |-> {}] /\ seq' = 0
           /\ tuples' = {} /\ keys' = {}
TrInit == IsEv("init") /\ Bind(Ev.st)

TrStmt ==
  /\ IsEv("stmt")
  /\ Bind(Ev.st)
  /\ IF Ev.outcome = "committed"
     THEN CommitOK(Ev.seq, Ev.purges)
     ELSE /\ seq' >= seq                             \* only the counter may move
          /\ elems' = elems /\ journal' = journal /\ vlog' = vlog

\* a reader that ran while the writer sat at one of its backend mutations: it was held by the nexus lock
\* (empty answer list), or it saw the state before the statement, or the state after it - never a mixture
TrConc ==
  /\ IsEv("conc")
  /\ \A j \in 1..Len(Ev.reads) :
        LET d == Ev.reads[j][2] IN d = <<>> \/ d = Ev.pre \/ d = Ev.post
  /\ (~Ev.ok => Ev.pre = Ev.post)                    \* a refused statement changes no answer
  /\ UNCHANGED <<nvars, tuples, keys>>

TraceInit == Init /\ l = 2 /\ tuples = {} /\ keys = {}
TraceNext == TrReset \/ TrInit \/ TrStmt \/ TrConc
TraceSpec == TraceInit /\ [][TraceNext]_tvars

\* the same proposition tuple always resolves to one element
TupleUnique == \A p, q \in tuples : p[1] = q[1] => p[2] = q[2]
\* a logical key identifies at most one concept of a type
KeyUnique == \A p, q \in keys : p[1] = q[1] => p[2] = q[2]

TraceAccepted ==
  LET d == TLCGet("stats").diameter IN
  IF d = Len(Rec) THEN TRUE
  ELSE /\ PrintT(<<"TRACE_REJECTED", d + 1, ToJson([e |-> Rec[d + 1].e, i |-> Rec[d + 1].i, text |-> Rec[d + 1].text])>>)
       /\ FALSE
=============================================================================
