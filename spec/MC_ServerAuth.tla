--------------------------- MODULE MC_ServerAuth ---------------------------
(* Every administrative history up to MaxLen operations; after each history the complete expectation table of the *)
(* request matrix is emitted for the harness (harness/src/bin/drive_server.rs), which replays the history on the  *)
(* real service (plain, with a restart at the end, and with a restart after every operation) and sends the whole  *)
(* matrix: every scope x every method name of either scope (+ unknown names) x every token x both encodings.      *)
EXTENDS ServerAuth, TLC, Json

CONSTANTS MaxLen

VARIABLES hist, results
mvars == <<svars, hist, results>>

KeyFor(d) == IF d = "a" THEN "k1" ELSE "k2"
Ops(d) == { <<"create", d, NoKey>>, <<"create", d, KeyFor(d)>>, <<"open", d>>, <<"close", d>>,
            <<"setkey", d, "k1">>, <<"setkey", d, "k2">>, <<"setkey", d, "k3">>, <<"removekey", d>>,
            <<"genkey", d>> }
AllOps == UNION {Ops(d) : d \in Dbs} \cup {<<"setkey", Primary, "k3">>, <<"genkey", Primary>>}

\* operations worth exploring from a state: the ones that succeed, plus one refused operation of each kind
Useful(op) ==
  \/ Apply(op).res = "ok" /\ (<<Apply(op).exists, Apply(op).open, Apply(op).bound>> # <<exists, open, bound>> \/ op[1] \in {"setkey", "genkey"})
  \/ Len(hist) = MaxLen - 1 /\ Apply(op).res # "ok"

MCInit == Init /\ hist = <<>> /\ results = <<>>
MCNext ==
  /\ Len(hist) < MaxLen
  /\ \E op \in AllOps :
       /\ Useful(op)
       /\ LET r == Apply(op) IN
          /\ exists' = r.exists /\ open' = r.open /\ bound' = r.bound
          /\ hist' = Append(hist, op) /\ results' = Append(results, r.res)
MCSpec == MCInit /\ [][MCNext]_mvars

ScopeSeq == <<"root", Primary, "a", "b", "missing", "bad">>
TokenSeq == <<"none", "garbage", "adm", "k1", "k2", "k3", "ga", "gb">>
KindSeq == <<"root", "db", "both", "unknown">>

Case ==
  [hist |-> hist, results |-> results, open |-> open, bound |-> bound, keyless |-> KeylessStart,
   classes |-> [s \in 1..Len(ScopeSeq) |-> [t \in 1..Len(TokenSeq) |-> [k \in 1..Len(KindSeq) |->
                   Class(ScopeSeq[s], TokenSeq[t], KindSeq[k])]]],
   info |-> [s \in 1..Len(ScopeSeq) |-> [t \in 1..Len(TokenSeq) |->
                   IF Class(ScopeSeq[s], TokenSeq[t], "both") = "reached" THEN InfoDatabases(ScopeSeq[s], TokenSeq[t]) ELSE {}]]]

Emit == PrintT(<<"REPLAY", ToJson(Case)>>)
=============================================================================
