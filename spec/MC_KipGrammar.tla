---------------------------- MODULE MC_KipGrammar ----------------------------
(***************************************************************************)
(* Direction R for the grammatical half of C15.  Bounded families of       *)
(* abstract syntax trees that reach every clause and pattern family of     *)
(* KQL / KML / META, nesting towers around and far beyond the limit, the   *)
(* length limit, "one command, whole input" wrappers, and token-level      *)
(* mutations of a subset of the sentences.  One REPLAY line per case with  *)
(* the verdicts COMPUTED HERE (class, ok / reject / budget, shape, peak    *)
(* nesting); harness/src/bin/drive_kip.rs renders tokens to text and       *)
(* compares the real parsers against them.                                 *)
(* Parts: 1 patterns, 2 literals / filters / tails / values, 3 META,       *)
(* 4 KML, 5 towers, 6 length / wide / whole input, then the enumeration.   *)
(***************************************************************************)
EXTENDS KipGrammar, TLC, Json

CONSTANT Tier       \* "quick" | "thorough"

Map(s, F(_)) == [i \in 1..Len(s) |-> F(s[i])]
Cross(AA, BB, F(_, _)) ==
  [k \in 1..(Len(AA) * Len(BB)) |-> F(AA[((k - 1) \div Len(BB)) + 1], BB[((k - 1) % Len(BB)) + 1])]
Fam(name, trees) == [i \in 1..Len(trees) |-> <<name, trees[i]>>]

StrNames == <<"plain", "empty", "T", "escquote", "trailbs", "onlybs", "bsquote", "opens", "closes", "slashes",
              "comment", "escslash", "nlesc", "uesc", "unicode", "keyword", "quotebr">>
NumNames == <<"0", "1", "3", "42", "-7", "0.5", "1e3", "-0", "u64max", "i64min", "2.5E-3", "1.0", "1.5e300">>
Literals == Map(StrNames, Str) \o Map(NumNames, Num) \o <<Lit("true"), Lit("false"), Lit("null")>>

NoTail == << <<>>, <<>>, <<>>, <<>>, <<>>, <<>> >>
Ord0   == <<1, 2, 3, 4, 5, 6>>
PathOf(v, steps) == <<"path", v, steps>>
X  == PathOf("x", <<>>)
XA == PathOf("x", << <<"f", "a">> >>)
Q(cs) == <<"find", <<X>>, cs, NoTail, Ord0>>
OM(entries) == <<"om", entries>>
OM1 == OM(<< <<Id("type"), Str("T")>> >>)
CX  == <<"concept", "x", FALSE, OM1>>
Tuple(s, p, o) == <<"tuple", s, p, o>>
WP(pm) == <<"wprop", "", FALSE, pm>>
QN == <<"none">>
PP(alts) == <<"ppath", alts>>
Obj(entries) == <<"obj", entries>>
O1 == Obj(<< <<Id("a"), Num("1")>> >>)

PathAlt   == PP(<< <<Str("plain"), QN>>, <<Str("T"), QN>> >>)
PathHop   == PP(<< <<Str("plain"), <<"range", "1", "3">> >> >>)
Preds == << Str("plain"), Par("p"), Var("pv"), Str("trailbs"),
            PathAlt, PathHop,
            PP(<< <<Str("plain"), <<"exact", "3">> >> >>),
            PP(<< <<Str("plain"), <<"open", "1">> >> >>),
            PP(<< <<Str("plain"), <<"range", "0", "5">> >> >>),
            PP(<< <<Par("p"), <<"range", "1", "3">> >>, <<Var("pv"), QN>>, <<Str("trailbs"), <<"exact", "1">> >> >>),
            PP(<< <<Str("plain"), QN>> >>),                          \* one unquantified atom: an exact predicate
            PP(<< <<Str("plain"), <<"range", "3", "1">> >> >>) >>     \* maximum below minimum

Terms == << Var("s"), Par("a"), Str("plain"), Num("42"), Lit("true"), Lit("null"), OM1, OM(<<>>),
            OM(<< <<Id("type"), Str("T")>>, <<Str("escquote"), Var("v")>> >>),
            Tuple(Var("u"), Str("plain"), Var("w")), <<"pid", Par("pid")>>, <<"pid", Str("plain")>> >>

\* pattern values (members of an object pattern)
TP == Tuple(Var("s"), Str("plain"), Var("o"))
MVals == << Var("v"), Par("a"), Str("plain"), Str("trailbs"), Num("42"), Lit("null"),
            <<"marr", <<Var("v"), Num("1")>> >>, <<"marr", <<>> >>, OM1,
            <<"omt", << <<Id("b"), Num("1")>> >> >>,
            TP, <<"pid", Par("pid")>>,
            Tuple(Var("s"), PathAlt, Var("o")),                                  \* raw path one level down
            Tuple(Var("s"), PathHop, Var("o")),
            <<"marr", << Tuple(Var("s"), PathAlt, Var("o")) >> >>,               \* ... in an array member
            OM(<< <<Id("inner"), Tuple(Var("s"), PathHop, Var("o"))>> >>),       \* ... in a nested object pattern
            Tuple(Str("plain"), Str("plain"), Var("o")),                         \* literal subject one level down
            Tuple(Tuple(Var("u"), PathAlt, Var("w")), Str("plain"), Var("o")) >> \* path in a nested tuple

ConceptOf(mv)   == <<"concept", "x", TRUE, OM(<< <<Id("a"), mv>> >>)>>
AssertionOf(mv) == <<"kindpat", "ASSERTION", "a", OM(<< <<Id("proposition"), mv>>, <<Id("stance"), Str("plain")>> >>)>>

F1 == <<"cmp", "<", XA, Num("3")>>
F2 == <<"fcall", "IS_NULL", <<X>> >>
F3 == <<"cmp", "==", PathOf("x", << <<"f", "facets">>, <<"k", "trailbs">>, <<"f", "m">> >>), Str("opens")>>

WCBase ==
     [i \in 1..Len(Terms) |-> WP(Tuple(Terms[i], Str("plain"), Var("o")))]
  \o [i \in 1..Len(Terms) |-> WP(Tuple(Var("s"), Str("plain"), Terms[i]))]
  \o [i \in 1..Len(Preds) |-> WP(Tuple(Var("s"), Preds[i], Var("o")))]
  \o << <<"wprop", "p", FALSE, TP>>, <<"wprop", "p", TRUE, TP>>, <<"wprop", "", TRUE, TP>>,
        <<"wprop", "p", FALSE, <<"pid", Par("pid")>> >>, <<"wprop", "", TRUE, <<"pid", Num("42")>> >>,
        <<"wprop", "p", TRUE, <<"pid", Str("plain")>> >>, WP(<<"pid", Par("pid")>>) >>
  \o Map(MVals, ConceptOf) \o Map(MVals, AssertionOf)
  \o << CX, <<"concept", "x", TRUE, OM(<<>>)>>,
        <<"concept", "x", FALSE, OM(<< <<Id("type"), Str("T")>>, <<Id("type"), Str("plain")>> >>)>>,   \* duplicate key
        <<"concept", "x", FALSE, <<"omt", << <<Id("type"), Str("T")>>, <<Str("keyword"), Lit("true")>> >> >> >>,
        <<"kindpat", "EVIDENCE", "e", OM(<< <<Id("evidence_class"), Str("plain")>> >>)>>,
        <<"kindpat", "ACTIVITY", "act", OM(<< <<Id("activity_class"), Str("plain")>>, <<Id("status"), Par("st")>> >>)>>,
        <<"struct", "e", Var("s"), Str("plain"), Var("o")>>, <<"struct", "", Var("s"), Str("plain"), Var("o")>>,
        <<"struct", "e", OM1, Par("f"), TP>>, <<"struct", "", Par("a"), Str("trailbs"), Str("plain")>>,
        <<"belief", "b", <<"bvar", "p">> >>, <<"belief", "b", <<"pid", Par("pid")>> >>, <<"belief", "b", TP>>,
        <<"belief", "b", Tuple(Par("a"), Str("plain"), Str("plain"))>>,
        <<"belief", "b", Tuple(Var("s"), PathAlt, Var("o"))>>,            \* projection never walks a path
        <<"belief", "b", Tuple(Str("plain"), Str("plain"), Var("o"))>>,   \* literal subject
        <<"slot", "sl", Var("s"), Str("plain")>>, <<"slot", "sl", Par("a"), Par("p")>>, <<"slot", "sl", OM1, Var("pv")>>,
        <<"slot", "sl", Str("plain"), Str("plain")>>,                     \* literal subject
        <<"filter", F1>>, <<"filter", F2>>, <<"filter", F3>>,
        <<"not", <<CX>> >>, <<"optional", <<CX, WP(TP)>> >>, <<"union", <<CX>> >>, <<"not", <<>> >>,
        <<"not", << <<"belief", "b", TP>> >> >>,
        <<"optional", << WP(Tuple(Var("s"), PathAlt, Var("o"))) >> >>,
        <<"not", << AssertionOf(Tuple(Var("s"), PathHop, Var("o"))) >> >>,   \* nested path under NOT
        <<"union", << <<"optional", << <<"not", <<CX, <<"filter", F1>> >> >> >> >> >> >>,
        <<"union", << <<"optional", << ConceptOf(Tuple(Var("s"), PathAlt, Var("o"))) >> >> >> >> >>

\* carriers of a WHERE clause: one KQL (raw paths and BELIEF admitted), eight exact ones
PT == Par("t")
KqlCarrier(c)  == Q(<<c>>)
ExportOf(cs)   == <<"meta", "ExportCapsule", <<<<"K", "EXPORT">>, <<"K", "CAPSULE">>, <<"S", Par("out")>>, <<"W", cs>> >> >>
ExportCarrier(c)  == ExportOf(<<c>>)
UpdateCarrier(c)  == <<"update", PT, <<>>, << <<<<"SET", "ATTRIBUTES">>, O1>> >>, <<<<c>>>>, <<>> >>
ArchiveCarrier(c) == <<"archive", PT, <<<<c>>>>, <<>>, <<>> >>
TombCarrier(c)    == <<"tombstone", PT, <<<<c>>>>, <<Num("1")>>, <<>> >>
PurgeCarrier(c)   == <<"purge", PT, <<<<c>>>>, <<>>, <<>>, Str("PURGE")>>
RetractCarrier(c) == <<"retract", PT, <<<<c>>>>, <<>>, <<>> >>
RetentionCarrier(c) == <<"retention", PT, Obj(<< <<Id("retention_class"), Str("plain")>> >>), <<<<c>>>>, <<>>, <<>> >>
MergeCarrier(c)   == <<"merge", Par("s"), PT, <<<<c>>>>, <<>> >>

WhereFam ==
     Fam("where-kql", Map(WCBase, KqlCarrier)) \o Fam("where-export", Map(WCBase, ExportCarrier))
  \o Fam("where-update", Map(WCBase, UpdateCarrier)) \o Fam("where-archive", Map(WCBase, ArchiveCarrier))
  \o (IF Tier = "quick" THEN <<>> ELSE
        Fam("where-tombstone", Map(WCBase, TombCarrier)) \o Fam("where-purge", Map(WCBase, PurgeCarrier))
     \o Fam("where-retract", Map(WCBase, RetractCarrier)) \o Fam("where-retention", Map(WCBase, RetentionCarrier))
     \o Fam("where-merge", Map(WCBase, MergeCarrier)))

---------------------------------------------------------------------------
(* Part 2: literals, filters, FIND tails, values.                          *)
LitFam ==
     Fam("lit-meta",   Map(Literals, LAMBDA l : <<"meta", "Describe", <<<<"K", "DESCRIBE">>, <<"K", "TYPE">>, <<"S", l>> >> >>))
  \o Fam("lit-match",  Map(Literals, LAMBDA l : Q(<< <<"concept", "x", FALSE, OM(<< <<Id("name"), l>> >>)>> >>)))
  \o Fam("lit-object", Map(Literals, LAMBDA l : Q(<< WP(Tuple(Var("s"), Str("plain"), l)) >>)))
  \o Fam("lit-filter", Map(Literals, LAMBDA l : Q(<< CX, <<"filter", <<"cmp", "!=", XA, l>> >> >>)))
  \o Fam("lit-assign", Map(Literals, LAMBDA l :
        <<"create_concept", "c", << <<<<"TYPE">>, Str("T")>>, <<<<"SET", "ATTRIBUTES">>, Obj(<< <<Id("a"), l>> >>)>> >> >>))
  \o Fam("lit-key",    Map(Map(StrNames, Str), LAMBDA k :
        <<"meta", "Describe", <<<<"K", "DESCRIBE">>, <<"K", "ACCESS">>, <<"K", "WITH">>, <<"O", Obj(<< <<k, Num("1")>> >>)>> >> >>))
  \o Fam("lit-pred",   Map(Map(StrNames, Str), LAMBDA k : Q(<< WP(Tuple(Var("s"), k, Var("o"))) >>)))

Opds == << Par("a"), XA, PathOf("x", << <<"k", "plain">> >>), Str("plain"), Num("-7"), Lit("null"),
           <<"flist", <<Str("plain"), Str("T")>> >>, <<"flist", <<>> >>, <<"neg", XA>>, <<"ogrp", XA>>,
           <<"ogrp", <<"neg", <<"ogrp", Par("a")>> >> >>, O1, Obj(<<>>), <<"flist", << <<"flist", <<Num("1")>> >>, XA >> >> >>
CmpOps == <<"==", "!=", "<", ">", "<=", ">=">>
FilterFns == <<"CONTAINS", "STARTS_WITH", "ENDS_WITH", "REGEX", "IN", "IS_NULL", "IS_NOT_NULL", "IS_LITERAL", "IS_ELEMENT",
               "IS_KIND", "LITERAL_TYPE">>
FExprs ==
     Map(CmpOps, LAMBDA op : <<"cmp", op, XA, Num("3")>>)
  \o Map(Opds, LAMBDA o : <<"cmp", "==", o, XA>>) \o Map(Opds, LAMBDA o : <<"cmp", "!=", XA, o>>)
  \o Map(FilterFns, LAMBDA f : <<"fcall", f, <<XA, Str("plain")>> >>)
  \o << <<"fcall", "IN", <<XA, <<"flist", <<Str("plain"), Par("a"), Num("1")>> >> >> >>,
        <<"fcall", "IS_NULL", <<>> >>, <<"fcall", "REGEX", <<XA, Str("trailbs")>> >>,
        <<"and", F1, F2>>, <<"or", F1, F2>>, <<"fnot", F1>>, <<"fgrp", F1>>, <<"fnot", <<"fnot", F2>> >>,
        <<"and", <<"and", F1, F2>>, F3>>, <<"or", F1, <<"and", F2, F3>> >>, <<"and", <<"fgrp", <<"or", F1, F2>> >>, F3>>,
        <<"fnot", <<"fgrp", <<"and", F1, <<"fnot", F2>> >> >> >>, <<"fgrp", <<"fgrp", <<"fgrp", F2>> >> >>,
        <<"chain", "&&", 5, F1>>, <<"chain", "||", 5, F2>>, <<"bangs", 4, F2>>,
        <<"cmp", ">", <<"negs", 3, XA>>, Num("0")>> >>
FilterFam ==
     Fam("filter-kql", Map(FExprs, LAMBDA e : Q(<< CX, <<"filter", e>> >>)))
  \o Fam("filter-update", Map(FExprs, LAMBDA e :
        <<"update", Var("x"), <<>>, << <<<<"SET", "ATTRIBUTES">>, O1>> >>, <<<<CX, <<"filter", e>> >>>>, <<Par("n")>> >>))

\* the six tail slots of FIND; bit k of mask selects slot k
Bit(mask, k) == (mask \div (2 ^ (k - 1))) % 2 = 1
TailSlots(asof) == << asof, <<Par("t")>>, <<Obj(<< <<Id("explain"), Str("plain")>> >>)>>,
                      << << <<X, "">> >> >>, <<Num("42")>>, <<Par("c")>> >>
TailOf(mask, asof) == [k \in 1..6 |-> IF Bit(mask, k) THEN TailSlots(asof)[k] ELSE <<>>]
AsOfSeq == <<"SEQ", Num("42")>>
Swap(i, j) == [k \in 1..6 |-> IF k = i THEN j ELSE IF k = j THEN i ELSE k]
Pairs6 == << <<1, 2>>, <<1, 3>>, <<1, 4>>, <<1, 5>>, <<1, 6>>, <<2, 3>>, <<2, 4>>, <<2, 5>>, <<2, 6>>, <<3, 4>>, <<3, 5>>,
             <<3, 6>>, <<4, 5>>, <<4, 6>>, <<5, 6>> >>
Agg(f, d, p) == <<"agg", f, d, p>>
Projs == << <<X>>, <<XA>>, <<PathOf("x", << <<"f", "attributes">>, <<"f", "goal">> >>)>>,
            <<PathOf("x", << <<"f", "facets">>, <<"k", "plain">>, <<"f", "m">> >>)>>, <<PathOf("x", << <<"k", "escquote">> >>)>>,
            <<X, PathOf("y", <<>>), XA>>, <<Agg("COUNT", FALSE, X)>>, <<Agg("COUNT", TRUE, X)>>, <<Agg("SUM", FALSE, XA)>>,
            <<Agg("AVG", TRUE, XA)>>, <<Agg("MIN", FALSE, XA)>>, <<Agg("MAX", FALSE, XA)>>, <<XA, Agg("COUNT", TRUE, X)>>,
            <<>> >>                                                                     \* FIND() projects nothing
Orders == << << <<X, "">> >>, << <<X, "ASC">> >>, << <<XA, "DESC">> >>, << <<Agg("COUNT", FALSE, X), "DESC">>, <<XA, "">> >>,
             << <<Agg("MAX", FALSE, XA), "">>, <<X, "ASC">>, <<PathOf("x", << <<"k", "plain">> >>), "DESC">> >> >>
TailFam ==
     Fam("tail-subsets", [m \in 1..64 |-> <<"find", <<X>>, <<CX>>, TailOf(m - 1, AsOfSeq), Ord0>>])
  \o Fam("tail-asof", << <<"find", <<X>>, <<CX>>, TailOf(1, <<"TX", Par("tx")>>), Ord0>>,
                         <<"find", <<X>>, <<CX>>, TailOf(3, <<"TIME", Str("plain")>>), Ord0>>,
                         <<"find", <<X>>, <<CX>>, TailOf(63, <<"TIME", Par("t")>>), Ord0>> >>)
  \o Fam("tail-order", Map(Pairs6, LAMBDA p : <<"find", <<X>>, <<CX>>, TailOf(63, AsOfSeq), Swap(p[1], p[2])>>))
  \o Fam("projections", Map(Projs, LAMBDA ps : <<"find", ps, <<CX>>, NoTail, Ord0>>))
  \o Fam("orderby", Map(Orders, LAMBDA o : <<"find", <<X>>, <<CX>>, << <<>>, <<>>, <<>>, <<o>>, <<>>, <<>> >>, Ord0>>))
  \o Fam("where-shapes", << Q(<<>>), Q(<<CX, CX, WP(TP)>>), Q(<<WP(TP), CX, <<"filter", F1>>, <<"not", <<CX>> >> >>) >>)

\* data values; the first group has nothing to bind, the second carries parameters / handles / reads
ValsLit == << Num("1"), Str("trailbs"), Lit("null"), <<"arr", <<>> >>, <<"arr", <<Num("1"), Str("plain"), Lit("true")>> >>,
              <<"arrt", <<Num("1"), Num("3")>> >>, Obj(<<>>), Obj(<< <<Id("k"), Num("1")>>, <<Str("escquote"), Str("opens")>> >>),
              <<"objt", << <<Id("k"), <<"arr", <<Num("0")>> >> >> >> >>,
              <<"arr", << Obj(<< <<Id("k"), <<"arr", << <<"arr", <<>> >>, Obj(<<>>) >> >> >> >>), Num("-7") >> >>,
              Obj(<< <<Str("trailbs"), <<"arr", <<Str("quotebr"), Str("comment")>> >> >>, <<Id("by"), Obj(<< <<Id("mode"), Lit("false")>> >>)>> >>) >>
ValsBound == << Par("a"), <<"arr", <<Par("a"), Num("1")>> >>, Obj(<< <<Id("k"), Par("a")>>, <<Id("j"), Num("1")>> >>),
                <<"arr", << Obj(<< <<Id("k"), <<"arr", <<Par("a")>> >> >> >>) >> >> >>
ValsRead  == << Var("h"), XA, <<"arr", <<Var("h"), XA>> >>, Obj(<< <<Id("k"), Var("h")>> >>) >>
AsObj(v) == Obj(<< <<Id("v"), v>>, <<Id("w"), Num("1")>> >>)
ValueFam ==
     Fam("value-epistemic", Map(ValsLit \o ValsBound \o ValsRead, LAMBDA v :
          <<"find", <<X>>, <<CX>>, << <<>>, <<>>, <<AsObj(v)>>, <<>>, <<>>, <<>> >>, Ord0>>))
  \o Fam("value-access", Map(ValsLit \o ValsBound \o ValsRead, LAMBDA v :
          <<"meta", "Describe", <<<<"K", "DESCRIBE">>, <<"K", "ACCESS">>, <<"K", "WITH">>, <<"O", AsObj(v)>> >> >>))
  \o Fam("value-attributes", Map(ValsLit \o ValsBound, LAMBDA v :
          <<"create_concept", "c", << <<<<"TYPE">>, Str("T")>>, <<<<"SET", "ATTRIBUTES">>, AsObj(v)>> >> >>))
  \o Fam("value-facet", Map(ValsLit \o ValsBound, LAMBDA v :
          <<"update", PT, <<>>, << <<<<"SET", "FACET">>, Str("plain"), AsObj(v)>> >>, <<>>, <<>> >>))
  \o Fam("value-edge", Map(ValsLit \o ValsBound, LAMBDA v :
          <<"create_record", "EVIDENCE", "e", << <<<<"SET", "STRUCTURAL">>, << <<Str("plain"), v, <<AsObj(v)>> >>, <<Par("f"), Par("a"), <<>> >> >> >> >> >>))
  \o Fam("value-retention", Map(ValsLit \o ValsBound, LAMBDA v : <<"retention", PT, AsObj(v), <<>>, <<>>, <<>> >>))
  \o Fam("value-export", Map(ValsLit \o ValsBound, LAMBDA v :
          <<"meta", "ExportCapsule", <<<<"K", "EXPORT">>, <<"K", "CAPSULE">>, <<"S", Var("x")>>, <<"W", <<CX>> >>, <<"K", "WITH">>,
                                       <<"O", AsObj(v)>>, <<"A", "SEQ", Num("3")>> >> >>))

---------------------------------------------------------------------------
(* Part 3: META.                                                           *)
K(w) == <<"K", w>>
Sc(tok) == <<"S", tok>>
KS(ws) == [i \in 1..Len(ws) |-> K(ws[i])]
Meta(v, parts) == <<"meta", v, parts>>
Desc(parts) == Meta("Describe", <<K("DESCRIBE")>> \o parts)
PV == Sc(Par("v"))
SV == Sc(Str("plain"))
AsOfParts == << <<>>, << <<"A", "SEQ", Num("42")>> >>, << <<"A", "TX", Par("tx")>> >>, << <<"A", "TIME", Str("plain")>> >> >>
OneOperand == << <<"TYPE">>, <<"PREDICATE">>, <<"FACET">>, <<"STRUCTURAL", "FIELD">>, <<"PACKAGE">>, <<"ERROR">>, <<"CAPSULE">>,
                 <<"TRANSACTION">>, <<"TRANSACTION", "BY", "IDEMPOTENCY", "KEY">> >>
OptOperand == << <<"SPACE">>, <<"EPISTEMIC", "POLICY">>, <<"TRUST">> >>
DescribeFam == Fam("describe",
     << Desc(KS(<<"PRIMER">>)), Desc(KS(<<"PRIMER", "MODE">>) \o <<SV>>), Desc(KS(<<"PRIMER", "MODE">>) \o <<PV>>),
        Desc(KS(<<"PROTOCOL">>)), Desc(KS(<<"EXECUTION", "CONTEXT">>)), Desc(KS(<<"CAPABILITIES">>)),
        Desc(KS(<<"PROJECTION", "CAPABILITY">>)), Desc(KS(<<"ACCESS">>)), Desc(KS(<<"ACCESS", "WITH">>) \o << <<"O", O1>> >>),
        Desc(KS(<<"COMPATIBILITY", "FROM">>) \o <<PV, K("TO"), SV>>) >>
  \o Map(OneOperand, LAMBDA ws : Desc(KS(ws) \o <<PV>>)) \o Map(OneOperand, LAMBDA ws : Desc(KS(ws) \o <<SV>>))
  \o Map(OptOperand, LAMBDA ws : Desc(KS(ws))) \o Map(OptOperand, LAMBDA ws : Desc(KS(ws) \o <<PV>>))
  \o Map(OptOperand, LAMBDA ws : Desc(KS(ws) \o <<Sc(Str("trailbs"))>>))
  \o Map(AsOfParts, LAMBDA a : Desc(KS(<<"SCHEMA", "ENVIRONMENT">>) \o a))
  \o Map(AsOfParts, LAMBDA a : Desc(KS(<<"SNAPSHOT">>) \o a))
  \o Map(AsOfParts, LAMBDA a : Meta("Snapshot", <<K("SNAPSHOT")>> \o a)))

\* optional trailing clauses selected by the bits of a mask
Opts(mask, clauses) == Concat([k \in 1..Len(clauses) |-> IF Bit(mask, k) THEN clauses[k] ELSE <<>>])
Paging == << <<K("LIMIT"), Sc(Num("42"))>>, <<K("CURSOR"), Sc(Par("c"))>> >>
ListTargets == << <<"SPACES">>, <<"TYPES">>, <<"PREDICATES">>, <<"FACETS">>, <<"STRUCTURAL", "FIELDS">>, <<"EPISTEMIC", "POLICIES">>,
                  <<"SCHEMA", "PACKAGES">>, <<"SCHEMA", "PACKAGES", "STATUS">> >>
ListFam == Fam("list", Cross(ListTargets, <<0, 1, 2, 3>>, LAMBDA ws, m :
     Meta("List", <<K("LIST")>> \o KS(ws) \o (IF ws[Len(ws)] = "STATUS" THEN <<SV>> ELSE <<>>) \o Opts(m, Paging))))
SearchOpts == << <<K("WITH"), K("TYPE"), SV>>, <<K("WITH"), K("PREDICATE"), PV>>, <<K("MODE"), SV>>, <<K("THRESHOLD"), Sc(Num("0.5"))>>,
                 <<K("AS"), K("OF"), K("SEQ"), Sc(Num("42"))>>, <<K("LIMIT"), Sc(Num("3"))>>, <<K("CURSOR"), Sc(Par("c"))>> >>
SearchKinds == <<"CONCEPT", "PROPOSITION", "ASSERTION", "EVIDENCE", "ACTIVITY", "COGNITION">>
SearchFam ==
     Fam("search", [m \in 1..128 |-> Meta("Search", <<K("SEARCH"), K("COGNITION"), Sc(Str("plain"))>> \o Opts(m - 1, SearchOpts))])
  \o Fam("search-kind", Map(SearchKinds, LAMBDA k : Meta("Search", <<K("SEARCH"), K(k), PV>>)))
VerifyTargets == << <<"SCHEMA", "PACKAGE">>, <<"CAPSULE">>, <<"RECEIPT">>, <<"BLOB">>, <<"CHECKPOINT">> >>
ValidateTargets == << <<"SCHEMA", "PACKAGE">>, <<"IMPORT", "PLAN">>, <<"KQL">>, <<"KML">>, <<"CAPSULE">> >>
HistoryOpts == << <<K("FROM"), K("SEQ"), Sc(Num("1"))>>, <<K("TO"), K("SEQ"), Sc(Par("b"))>>, <<K("LIMIT"), Sc(Num("3"))>>,
                  <<K("CURSOR"), Sc(Par("c"))>> >>
OtherMetaFam ==
     Fam("verify", Map(VerifyTargets, LAMBDA ws : Meta("Verify", <<K("VERIFY")>> \o KS(ws) \o <<PV>>)))
  \o Fam("validate", Map(ValidateTargets, LAMBDA ws : Meta("Validate", <<K("VALIDATE")>> \o KS(ws) \o <<PV>>))
                  \o Map(ValidateTargets, LAMBDA ws : Meta("Validate", <<K("VALIDATE")>> \o KS(ws) \o <<SV, K("WITH"), <<"O", O1>> >>)))
  \o Fam("preview", << Meta("Preview", KS(<<"PREVIEW", "KML">>) \o <<PV>>),
                       Meta("Preview", KS(<<"PREVIEW", "IMPORT", "CAPSULE">>) \o <<PV, K("INTO"), SV>>) >>)
  \o Fam("history", [m \in 1..16 |-> Meta("History", KS(<<"HISTORY", "ELEMENT">>) \o <<SV>> \o Opts(m - 1, HistoryOpts))]
                 \o [m \in 1..16 |-> Meta("History", KS(<<"HISTORY", "SPACE">>) \o Opts(m - 1, HistoryOpts))])
  \o Fam("changes", << Meta("Changes", KS(<<"CHANGES", "AFTER", "SEQ">>) \o <<Sc(Num("42"))>>),
                       Meta("Changes", KS(<<"CHANGES", "AFTER", "SEQ">>) \o <<PV, K("LIMIT"), Sc(Num("3"))>>),
                       Meta("Changes", KS(<<"CHANGES", "SINCE">>) \o <<PV>>),
                       Meta("Changes", KS(<<"CHANGES", "SINCE">>) \o <<SV, K("LIMIT"), PV>>) >>)
  \o Fam("export", Cross(<<Par("out"), Var("x"), Str("plain")>>, AsOfParts, LAMBDA tgt, a :
                       Meta("ExportCapsule", KS(<<"EXPORT", "CAPSULE">>) \o <<Sc(tgt), <<"W", <<CX, WP(TP)>> >> >> \o a))
                \o << ExportOf(<<>>) >>)                                     \* an unbounded EXPORT is not a Capsule
MetaFam == DescribeFam \o ListFam \o SearchFam \o OtherMetaFam

---------------------------------------------------------------------------
(* Part 4: KML.                                                            *)
B(ws, a)     == <<ws, a>>
B2(ws, a, b) == <<ws, a, b>>
A1 == Obj(<< <<Id("name"), Str("plain")>> >>)
A2 == Obj(<< <<Id("goal"), Par("g")>>, <<Str("keyword"), Num("0.5")>> >>)
Edges == << <<Str("plain"), Par("s0"), <<Obj(<< <<Id("index"), Num("0")>> >>)>> >>, <<Str("plain"), Par("s1"), <<>> >> >>
Removals == << <<Str("plain"), Par("s0")>> >>
BType == B(<<"TYPE">>, Str("T"))
BKey  == B(<<"CLIENT", "KEY">>, Par("k"))
BName == B(<<"NAME">>, Str("plain"))
BSF   == B(<<"SET", "FIELDS">>, A1)
BSA   == B(<<"SET", "ATTRIBUTES">>, A2)
BFac  == B2(<<"SET", "FACET">>, Str("plain"), Obj(<< <<Id("salience"), Num("0.5")>> >>))
BFac2 == B2(<<"SET", "FACET">>, Par("f"), O1)
BSS   == B(<<"SET", "STRUCTURAL">>, Edges)
BUA   == B(<<"UNSET", "ATTRIBUTES">>, <<Id("obsolete"), Str("escquote")>>)
BUF   == B2(<<"UNSET", "FACET">>, Str("plain"), <<Id("salience")>>)
BUS   == B(<<"UNSET", "STRUCTURAL">>, Removals)
BEV   == B(<<"EXPECT", "VERSION">>, Num("3"))
BMatch(k, v) == B(<<"MATCH">>, OM(<< <<Id("type"), Str("T")>>, <<Id(k), v>> >>))
CC(body) == <<"create_concept", "c", body>>
UC(body) == <<"upsert_concept", "c", body>>
UExpr == <<"ucall", "CLAMP", << <<"ucall", "MUL", <<PathOf("m", << <<"f", "facets">>, <<"k", "plain">>, <<"f", "s">> >>), Par("d")>> >>,
                                Num("0"), Num("1") >> >>
MX == <<"concept", "m", FALSE, OM1>>
Members(extra) == Obj(<< <<Id("by"), Par("alice")>>, <<Id("mode"), Str("plain")>> >> \o extra)
AllMembers == << <<Id("confidence"), Num("0.5")>>, <<Id("evidence"), <<"arr", <<Par("m1"), Par("m2")>> >> >>,
                 <<Id("stance"), Str("plain")>>, <<Id("at"), Par("time")>>,
                 <<Id("valid"), Obj(<< <<Id("from"), Par("t1")>>, <<Id("until"), Par("t2")>> >>)>>, <<Id("key"), Par("ck")>> >>
PA == Tuple(Par("alice"), Str("plain"), Par("dark"))
Stmts ==
  << CC(<<BType>>), CC(<<BType, BKey, BName, BSF, BSA, BFac, BFac2, BSS>>), CC(<<BSS, BFac, BSA, BSF, BName, BKey, BType>>),
     CC(<<B(<<"TYPE">>, Par("ty")), B(<<"NAME">>, Par("nm"))>>), CC(<<>>),
     CC(<<BType, BType>>),                                              \* a single-slot clause twice
     CC(<<BType, BMatch("key", Str("plain"))>>),                        \* MATCH is not a CREATE clause
     CC(<<BType, BUA>>),
     CC(<<BType, B(<<"SET", "FIELDS">>, Obj(<< <<Id("_system"), O1>> >>))>>),                  \* engine-owned
     CC(<<BType, B(<<"SET", "ATTRIBUTES">>, Obj(<< <<Id("space_id"), Num("1")>> >>))>>),
     CC(<<BType, B(<<"SET", "ATTRIBUTES">>, Obj(<< <<Id("a"), Num("1")>>, <<Id("a"), Num("3")>> >>))>>),   \* assigned twice
     UC(<<BMatch("key", Str("plain"))>>), UC(<<BMatch("id", Par("id"))>>),
     UC(<<BMatch("key", Str("plain")), BEV, BSF, BSA, BFac, BUA, BUF, BFac2, BSS, BUS>>),
     UC(<<BUS, BSS, BUF, BUA, BSA, BSF, BEV, BMatch("key", Par("k"))>>),
     UC(<<BMatch("name", Str("plain"))>>),                              \* name never identifies a Concept
     UC(<<BSF>>),                                                       \* no MATCH
     UC(<<BMatch("key", Var("v"))>>),                                   \* identity must be a literal or parameter
     UC(<<BMatch("key", Str("plain")), BType>>),                        \* TYPE is not an UPSERT clause
     UC(<<BMatch("key", Str("plain")), B(<<"UNSET", "STRUCTURAL">>, <<>>)>>),
     UC(<<BMatch("key", Str("plain")), B(<<"UNSET", "ATTRIBUTES">>, <<Id("governance")>>)>>),
     <<"create_record", "EVIDENCE", "e", <<BKey, BSF, BFac, BSS>> >>, <<"create_record", "ASSERTION", "a", <<BSF>> >>,
     <<"create_record", "ACTIVITY", "act", <<BSS, BSF>> >>, <<"create_record", "EVIDENCE", "e", <<>> >>,
     <<"create_record", "ACTIVITY", "act", <<BType>> >>,               \* TYPE is a Concept clause
     <<"create_record", "EVIDENCE", "e", <<BSA>> >>,
     <<"ensure", "", PA, <<>> >>, <<"ensure", "p", PA, <<>> >>, <<"ensure", "p", PA, <<Num("0")>> >>,
     <<"ensure", "", Tuple(Par("alice"), Par("pr"), Str("plain")), <<Par("v")>> >>,
     <<"ensure", "", Tuple(Tuple(Par("a"), Str("plain"), Par("b")), Str("plain"), OM1), <<>> >>,
     <<"ensure", "", <<"pid", Par("pid")>>, <<>> >>,                    \* no structure can be created from an id
     <<"ensure", "", Tuple(Par("a"), Var("pv"), Par("b")), <<>> >>,     \* ?variable predicates are read-pattern syntax
     <<"ensure", "", Tuple(Par("a"), PathAlt, Par("b")), <<>> >>,
     <<"ensure", "", Tuple(Str("plain"), Str("plain"), Par("b")), <<>> >>,
     <<"ensure", "", Tuple(Par("a"), Str("plain"), OM(<< <<Id("proposition"), Tuple(Var("s"), PathHop, Var("o"))>> >>)), <<>> >>,   \* path nested in the object term
     <<"assert", "", PA, Members(<<>>), <<>> >>, <<"assert", "a", PA, Members(<<>>), <<>> >>,
     <<"assert", "", PA, Members(AllMembers), <<Par("old")>> >>, <<"assert", "a", PA, Members(AllMembers), <<Str("plain")>> >>,
     <<"assert", "", Tuple(Par("alice"), Str("trailbs"), Str("opens")), Members(<< <<Id("key"), Str("plain")>> >>), <<>> >>,
     <<"assert", "", PA, Obj(<< <<Id("mode"), Str("plain")>> >>), <<>> >>,                      \* no assertor
     <<"assert", "", PA, Obj(<< <<Id("by"), Par("alice")>> >>), <<>> >>,                        \* no mode
     <<"assert", "", PA, Members(<< <<Id("because"), Str("plain")>> >>), <<>> >>,               \* not an ASSERT member
     <<"assert", "", PA, Members(<< <<Id("key"), O1>> >>), <<>> >>,
     <<"assert", "", <<"pid", Par("pid")>>, Members(<<>>), <<>> >>,
     <<"update", PT, <<>>, <<BSF>>, <<>>, <<>> >>, <<"update", Str("plain"), <<Par("v")>>, <<BSA, BFac, BUA, BUF, BSS, BUS>>, <<>>, <<>> >>,
     <<"update", Var("m"), <<Par("v")>>, << B2(<<"SET", "FACET">>, Str("plain"), Obj(<< <<Id("s"), UExpr>> >>)) >>,
       <<<<MX, <<"filter", <<"cmp", ">", PathOf("m", << <<"f", "facets">>, <<"k", "plain">>, <<"f", "s">> >>), Num("0")>> >> >>>>, <<Par("n")>> >>,
     <<"update", PT, <<>>, << B(<<"SET", "ATTRIBUTES">>, Obj(<< <<Id("n"), <<"ucall", "ADD", <<Par("d"), Num("-7")>> >> >>,
                                                            <<Id("c"), <<"ucall", "COALESCE", <<Par("d"), Num("1")>> >> >> >>)) >>, <<>>, <<>> >>,
     <<"update", PT, <<>>, <<>>, <<>>, <<>> >>,                         \* no action
     <<"update", PT, <<>>, <<BType>>, <<>>, <<>> >>,                    \* not a SET or UNSET action
     <<"retract", PT, <<>>, <<>>, <<>> >> >>

AX == <<"kindpat", "ASSERTION", "x", OM(<< <<Id("stance"), Str("plain")>> >>)>>
W1 == <<<<CX>>>>                 \* an optional WHERE that is present
\* lifecycle statements: every subset of their optional clauses
Stmts2 ==
     [m \in 1..8 |-> <<"retract", Var("x"), <<<<AX>>>>, IF Bit(m - 1, 1) THEN <<Num("3")>> ELSE <<>>,
                       IF Bit(m - 1, 2) THEN <<Str("plain")>> ELSE <<>> >>]
  \o [m \in 1..8 |-> <<"archive", IF Bit(m - 1, 3) THEN Var("x") ELSE PT, IF Bit(m - 1, 3) THEN W1 ELSE <<>>,
                       IF Bit(m - 1, 1) THEN <<Num("3")>> ELSE <<>>, IF Bit(m - 1, 2) THEN <<Par("st")>> ELSE <<>> >>]
  \o [m \in 1..8 |-> <<"tombstone", IF Bit(m - 1, 3) THEN Var("x") ELSE Str("plain"), IF Bit(m - 1, 3) THEN W1 ELSE <<>>,
                       IF Bit(m - 1, 1) THEN <<Par("n")>> ELSE <<>>, IF Bit(m - 1, 2) THEN <<Str("plain")>> ELSE <<>> >>]
  \o [m \in 1..8 |-> <<"purge", IF Bit(m - 1, 3) THEN Var("x") ELSE PT, IF Bit(m - 1, 3) THEN W1 ELSE <<>>,
                       IF Bit(m - 1, 1) THEN <<Num("3")>> ELSE <<>>, IF Bit(m - 1, 2) THEN <<Str("plain")>> ELSE <<>>, Str("PURGE")>>]
  \o [m \in 1..8 |-> <<"retention", IF Bit(m - 1, 3) THEN Var("x") ELSE PT,
                       Obj(<< <<Id("retention_class"), Str("plain")>>, <<Id("expires_at"), Par("t")>> >>),
                       IF Bit(m - 1, 3) THEN W1 ELSE <<>>, IF Bit(m - 1, 1) THEN <<Num("3")>> ELSE <<>>,
                       IF Bit(m - 1, 2) THEN <<Par("v")>> ELSE <<>> >>]
  \o [m \in 1..4 |-> <<"merge", IF Bit(m - 1, 2) THEN Var("x") ELSE Par("s"), PT, IF Bit(m - 1, 2) THEN W1 ELSE <<>>,
                       IF Bit(m - 1, 1) THEN <<Num("3")>> ELSE <<>> >>]
  \o << <<"purge", PT, <<>>, <<>>, <<>>, Str("purge")>>,             \* a near-miss confirmation
        <<"purge", PT, <<>>, <<>>, <<>>, Str("plain")>>,
        <<"supersede", Par("old"), Par("new"), <<>> >>, <<"supersede", Str("plain"), Str("T"), <<Str("plain")>> >>,
        <<"correct", Par("old"), Par("new"), <<>> >>, <<"correct", Str("plain"), Par("new"), <<Par("st")>> >>,
        <<"transition", Par("act"), Str("plain"), <<>>, <<>> >>,
        <<"transition", Par("act"), Par("to"), <<BSF>>, <<Str("plain")>> >>,
        <<"transition", Str("plain"), Str("plain"), <<BSS>>, <<>> >>,
        <<"transition", Par("act"), Str("plain"), <<BSF, BSS>>, <<Par("st")>> >>,
        <<"transition", Par("act"), Str("plain"), <<BSS, BSF>>, <<>> >>,
        <<"transition", Par("act"), Str("plain"), <<BSF, BSF>>, <<>> >> >>    \* at most one SET FIELDS

EvidenceE == <<"create_record", "EVIDENCE", "e", <<BKey, B(<<"SET", "FIELDS">>, Obj(<< <<Id("evidence_class"), Str("plain")>>, <<Id("payload"), Par("payload")>> >>)),
                                                   B(<<"SET", "STRUCTURAL">>, << <<Str("plain"), Par("alice"), <<>> >> >>)>> >>
AssertA   == <<"assert", "a", PA, Members(<< <<Id("evidence"), Var("e")>> >>), <<Par("old")>> >>
ActivityR == <<"create_record", "ACTIVITY", "rev", << B(<<"SET", "FIELDS">>, Obj(<< <<Id("activity_class"), Str("plain")>> >>)),
                 B(<<"SET", "STRUCTURAL">>, << <<Str("plain"), Par("old"), <<>> >>, <<Str("plain"), Var("e"), <<>> >>, <<Str("T"), Var("a"), <<>> >> >>)>> >>
Mutates ==
  << <<"mutate", <<EvidenceE, AssertA, ActivityR>> >>,
     <<"mutate", << <<"ensure", "p", PA, <<>> >>,
                    <<"create_record", "ASSERTION", "a", << B(<<"SET", "FIELDS">>, Obj(<< <<Id("proposition"), Var("p")>>, <<Id("asserted_by"), Par("alice")>> >>)) >> >>,
                    <<"supersede", Par("old"), Var("a"), <<>> >> >> >>,
     <<"mutate", <<CC(<<BType>>)>> >>,
     <<"mutate", << <<"assert", "", PA, Members(<<>>), <<>> >>, <<"assert", "", PA, Members(<<>>), <<>> >> >> >>,   \* two handle-less ASSERTs
     <<"mutate", << CC(<<BType>>), UC(<<BMatch("key", Str("plain"))>>) >> >>,                                     \* ?c claimed twice
     <<"mutate", <<>> >>,                                                                                          \* nothing to commit
     <<"mutate", << <<"mutate", <<CC(<<BType>>)>> >> >> >>,                                                        \* MUTATE does not nest
     <<"mutate", << <<"archive", PT, <<>>, <<>>, <<>> >>, <<"tombstone", PT, <<>>, <<>>, <<>> >>,
                    <<"purge", PT, <<>>, <<>>, <<>>, Str("PURGE")>>, <<"retract", PT, <<>>, <<>>, <<>> >>,
                    <<"correct", Par("old"), Par("new"), <<>> >>, <<"transition", Par("act"), Str("plain"), <<>>, <<>> >>,
                    <<"retention", PT, O1, <<>>, <<>>, <<>> >>, <<"merge", Par("s"), PT, <<>>, <<>> >>,
                    <<"update", PT, <<>>, <<BSA>>, <<>>, <<>> >>, <<"update", PT, <<>>, <<BSF>>, <<>>, <<>> >> >> >> >>
KmlFam == Fam("kml", Stmts \o Stmts2) \o Fam("mutate", Mutates)

---------------------------------------------------------------------------
(* Part 5: nesting towers.  Every builder takes the TOTAL bracket depth d   *)
(* of the finished command; the verdict flips between d = 64 and d = 65.    *)
DescAccess(v) == Desc(KS(<<"ACCESS", "WITH">>) \o << <<"O", v>> >>)
TArr(d)  == DescAccess(Obj(<< <<Id("a"), <<"atower", d - 1, Num("1")>> >> >>))
TMarr(d) == Q(<< <<"concept", "x", FALSE, OM(<< <<Id("a"), <<"mtower", d - 2, Num("1")>> >> >>)>> >>)
TFpar(d) == Q(<< CX, <<"filter", <<"fparens", d - 2, F1>> >> >>)
TObj(d)  == CC(<<BType, B(<<"SET", "ATTRIBUTES">>, Obj(<< <<Id("a"), <<"otower", d - 2, Num("1")>> >> >>))>>)
TNot(d)  == Q(<< <<"nottower", d - 2, <<CX>> >> >>)
TProp(d) == Q(<< WP(Tuple(Var("s"), Str("plain"), <<"ptower", d - 2, Var("o")>>)) >>)
TUpd(d)  == <<"update", PT, <<>>, << B(<<"SET", "ATTRIBUTES">>, Obj(<< <<Id("a"), <<"utower", d - 1, Num("1")>> >> >>)) >>, <<>>, <<>> >>
TOm(d)   == ExportOf(<< <<"concept", "x", TRUE, <<"omtower", d - 1, Var("v")>> >> >>)

DepthsRun == IF Tier = "quick" THEN <<3, 63, 64, 65, 66, 200, 20000>>
             ELSE <<3, 8, 32, 60, 61, 62, 63, 64, 65, 66, 67, 128, 200, 1000, 20000>>
DepthsExp == IF Tier = "quick" THEN <<3, 63, 64, 65, 200>> ELSE <<3, 8, 32, 60, 61, 62, 63, 64, 65, 66, 128, 200>>
TowerFam ==
     Fam("tower-array", Map(DepthsRun, TArr)) \o Fam("tower-match-array", Map(DepthsRun, TMarr))
  \o Fam("tower-filter-paren", Map(DepthsRun, TFpar))
  \o Fam("tower-object", Map(DepthsExp, TObj)) \o Fam("tower-not", Map(DepthsExp, TNot))
  \o Fam("tower-proposition", Map(DepthsExp, TProp)) \o Fam("tower-update-fn", Map(DepthsExp, TUpd))
  \o Fam("tower-object-pattern", Map(DepthsExp, TOm))

\* a string literal that ends in / contains escapes, quotes, brackets, slashes - then the tower
Tricky == <<"trailbs", "onlybs", "bsquote", "escquote", "opens", "closes", "comment", "quotebr", "slashes", "escslash">>
StrTower(s, d) ==
  << DescAccess(Obj(<< <<Id("p"), Str(s)>>, <<Id("a"), <<"atower", d - 1, Num("1")>> >> >>)),
     Q(<< <<"concept", "x", FALSE, OM(<< <<Id("p"), Str(s)>>, <<Id("a"), <<"mtower", d - 2, Num("1")>> >> >>)>> >>),
     CC(<<BType, B(<<"SET", "ATTRIBUTES">>, Obj(<< <<Str(s), Str(s)>>, <<Id("a"), <<"atower", d - 2, Num("1")>> >> >>))>>) >>
StrTowerFam == Fam("tower-after-string",
   Concat(Cross(Tricky, IF Tier = "quick" THEN <<64, 65>> ELSE <<63, 64, 65, 66, 72, 128>>, StrTower)))
\* 20 000 brackets that are never closed (20 KB, far below the length limit)
OpenTower(s) ==
  << DescAccess(Obj(<< <<Id("p"), Str(s)>>, <<Id("a"), <<"aopen", 20000>> >> >>)),
     Q(<< <<"concept", "x", FALSE, OM(<< <<Id("p"), Str(s)>>, <<Id("a"), <<"mopen", 20000>> >> >>)>> >>),
     CC(<<BType, B(<<"SET", "ATTRIBUTES">>, Obj(<< <<Id("p"), Str(s)>>, <<Id("a"), <<"aopen", 20000>> >> >>))>>),
     <<"rawcmd", <<Str(s), Run(20000, P("["))>> >>, <<"rawcmd", <<Str(s), Run(20000, P("("))>> >>,
     <<"rawcmd", <<P("["), Str(s), P(","), Run(20000, P("["))>> >> >>
OpenTowerFam == Fam("tower-unclosed", Concat(Map(<<"plain", "trailbs", "onlybs", "bsquote", "quotebr">>, OpenTower)))

\* operators that nest without a bracket
RECURSIVE NotGroup(_)
NotGroup(m) == IF m = 0 THEN F1 ELSE <<"fnot", <<"fgrp", NotGroup(m - 1)>> >>
FQ(e) == Q(<< CX, <<"filter", e>> >>)
OpsRun == IF Tier = "quick" THEN <<8, 60, 63, 66, 200, 5000>> ELSE <<8, 32, 60, 62, 63, 66, 67, 70, 128, 200, 5000, 50000>>
OpsExp == IF Tier = "quick" THEN <<8, 60, 66, 200>> ELSE <<8, 32, 60, 62, 63, 66, 67, 70, 128, 200>>
OpTowerFam ==
     Fam("ops-bang", Map(OpsRun, LAMBDA n : FQ(<<"bangs", n, F1>>)))
  \o Fam("ops-minus", Map(OpsRun, LAMBDA n : FQ(<<"cmp", ">", <<"negs", n, XA>>, Num("0")>>)))
  \o Fam("ops-and", Map(OpsExp, LAMBDA n : FQ(<<"chain", "&&", n, F1>>)))
  \o Fam("ops-or", Map(OpsExp, LAMBDA n : FQ(<<"chain", "||", n, F1>>)))
  \o Fam("ops-not-group", Map(<<5, 20, 31, 33, 40>>, LAMBDA m : FQ(NotGroup(m))))

---------------------------------------------------------------------------
(* Part 6: the length limit, wide inputs, "one command, whole input".      *)
Lens == <<MaxLen - 1, MaxLen, MaxLen + 1, MaxLen + 4096>>
PadBases == << Desc(KS(<<"PRIMER">>)), Q(<<CX>>), CC(<<BType>>) >>
PadKinds == <<"space", "comment", "lines">>
PadPos   == <<"front", "back", "mid">>
LenFam == Fam("length",
   [k \in 1..(Len(Lens) * 9) |->
      LET li == ((k - 1) \div 9) + 1  b == (((k - 1) % 9) \div 3) + 1  kd == ((k - 1) % 3) + 1
      IN <<"padded", PadPos[((li + b + kd) % 3) + 1], PadKinds[kd], Lens[li], PadBases[b]>>])
WideFam == Fam("wide",
   << DescAccess(Obj(<< <<Id("a"), <<"abig", 30000>> >> >>)),
      FQ(<<"fcall", "IN", <<XA, <<"fbig", 30000>> >> >>),
      Desc(KS(<<"TYPE">>) \o <<Sc(Str("huge"))>>),
      Q(<< <<"concept", "x", FALSE, OM(<< <<Str("huge"), Str("plain")>> >>)>> >>) >>)

WholeBases ==
  << Desc(KS(<<"PRIMER">>)), Desc(KS(<<"SPACE">>)), Desc(KS(<<"TRUST">>)), Desc(KS(<<"ACCESS">>)), Meta("Snapshot", <<K("SNAPSHOT")>>),
     Meta("List", KS(<<"LIST", "SPACES">>)), Meta("Search", <<K("SEARCH"), K("CONCEPT"), PV>>), Meta("History", KS(<<"HISTORY", "SPACE">>)),
     Meta("Changes", KS(<<"CHANGES", "SINCE">>) \o <<PV>>), ExportOf(<<CX>>),
     Q(<<CX>>), <<"find", <<X>>, <<CX>>, TailOf(63, AsOfSeq), Ord0>>, <<"find", <<X>>, <<CX>>, TailOf(8, AsOfSeq), Ord0>>,
     CC(<<BType>>), <<"ensure", "", PA, <<>> >>, <<"assert", "", PA, Members(<<>>), <<>> >>, <<"update", PT, <<>>, <<BSF>>, <<>>, <<>> >>,
     <<"archive", PT, <<>>, <<>>, <<>> >>, <<"purge", PT, <<>>, <<>>, <<>>, Str("PURGE")>>,
     <<"transition", Par("act"), Str("plain"), <<>>, <<>> >>, <<"mutate", <<CC(<<BType>>)>> >> >>
Wrap(t) ==
  << <<"then", t, <<Raw("junk")>> >>, <<"then", t, <<Raw("word")>> >>, <<"then", t, <<Raw("semi")>> >>, <<"then", t, <<P("}")>> >>,
     <<"then", t, <<P(")")>> >>, <<"then", t, <<Raw("find")>> >>, <<"lead", <<Raw("semi")>>, t>>, <<"lead", <<Raw("word")>>, t>>,
     <<"lead", <<P("{")>>, t>>, <<"seq", t, Desc(KS(<<"PRIMER">>))>>, <<"seq", t, Q(<<CX>>)>>, <<"seq", t, CC(<<BType>>)>>, <<"seq", t, t>> >>
WholeFam ==
     Fam("whole-input", Concat(Map(WholeBases, Wrap)))
  \o Fam("no-command", << <<"rawcmd", <<>> >>, <<"rawcmd", <<Raw("cmt")>> >>, <<"rawcmd", <<Kw("FIND")>> >>,
                          <<"rawcmd", <<Kw("FINDX"), P("("), Var("x"), P(")"), Kw("WHERE"), P("{"), P("}")>> >>,
                          <<"rawcmd", <<Kw("DESCRIBE"), Kw("PRIMERS")>> >>, <<"rawcmd", <<Kw("DESCRIBE")>> >>,
                          <<"rawcmd", <<Kw("MUTATE")>> >>, <<"rawcmd", <<Str("plain")>> >>, <<"rawcmd", <<Num("42")>> >>,
                          <<"rawcmd", <<P("{"), Id("a"), P(":"), Num("1"), P("}")>> >>, <<"rawcmd", <<Raw("nul")>> >>,
                          <<"rawcmd", <<Raw("quote")>> >>, <<"rawcmd", <<Raw("bslash")>> >>, <<"rawcmd", <<Raw("dslash")>> >> >>)

---------------------------------------------------------------------------
Cases == WhereFam \o LitFam \o FilterFam \o TailFam \o ValueFam \o MetaFam \o KmlFam
         \o TowerFam \o StrTowerFam \o OpenTowerFam \o OpTowerFam \o LenFam \o WideFam \o WholeFam
NCases == Len(Cases)

(* Mutations of the token sequence of a base sentence.                     *)
RawNames == <<"quote", "bslash", "slash", "dslash", "nl", "lp", "lb", "lc", "rp", "rb", "rc", "junk", "semi", "word", "find",
              "nul", "emoji", "cmt", "strfrag">>
MutsOf(n) ==
     [i \in 1..n |-> <<"del", i>>] \o [i \in 1..n |-> <<"dup", i>>] \o [i \in 1..(n - 1) |-> <<"swap", i>>]
  \o [i \in 1..n |-> <<"trunc", i - 1>>] \o [i \in 1..n |-> <<"flip", i>>]
  \o [k \in 1..((n + 1) * Len(RawNames)) |-> <<"ins", ((k - 1) \div Len(RawNames)) + 1, RawNames[((k - 1) % Len(RawNames)) + 1]>>]
Stride == IF Tier = "quick" THEN 41 ELSE 7
BoundaryFams == {"tower-array", "tower-match-array", "tower-filter-paren", "tower-after-string", "tower-not"}
IsBase(i) ==
  LET f == Cases[i][1] IN
  /\ f \notin {"length", "wide", "tower-unclosed"}
  /\ Len(Tok(Cases[i][2])) <= 160
  /\ \/ i % Stride = 0
     \/ f \in BoundaryFams /\ DepthOf(Tok(Cases[i][2])) \in {63, 64}
BaseIdx == {i \in 1..NCases : IsBase(i)}

NChunks == 24
VARIABLES ph, chunk, ci, mi
vars == <<ph, chunk, ci, mi>>
Init == ph \in {"tree", "mut"} /\ chunk \in 0..(NChunks - 1) /\ ci = 0 /\ mi = 0
Next == /\ ci = 0
        /\ \/ /\ ph = "tree"
              /\ ci' \in {i \in 1..NCases : i % NChunks = chunk}
              /\ mi' = 0
           \/ /\ ph = "mut"
              /\ ci' \in {i \in BaseIdx : i % NChunks = chunk}
              /\ mi' \in 1..Len(MutsOf(Len(Tok(Cases[ci'][2]))))
        /\ UNCHANGED <<ph, chunk>>
Spec == Init /\ [][Next]_vars

TreeCase ==
  LET f == Cases[ci][1]  t == Cases[ci][2]  toks == Tok(t) IN
  [id |-> ci, fam |-> f, kind |-> Kind(t), verdict |-> Verdict(t), peak |-> DepthOf(toks), len |-> PadLen(toks),
   shape |-> Shape(t), exp |-> Expected(t), toks |-> toks]
MutCase ==
  LET toks == Tok(Cases[ci][2])  m == MutsOf(Len(toks))[mi]  mt == Mutate(toks, m)  pk == DepthOf(mt) IN
  [base |-> ci, m |-> m, n |-> Len(mt), peak |-> pk, verdict |-> IF pk > MaxDepth THEN "budget" ELSE "any"]

Emit == ci > 0 => IF ph = "tree" THEN PrintT(<<"REPLAY", ToJson(TreeCase)>>) ELSE PrintT(<<"MUT", ToJson(MutCase)>>)

(* Laws: the expected results of every sentence satisfy the agreement law; *)
(* the budget verdict is exactly the lexical oracle's; an accepted         *)
(* sentence has a shape, a refused or rejected one is accepted by nobody.  *)
Laws ==
  (ci > 0 /\ ph = "tree") =>
    LET t == Cases[ci][2]  toks == Tok(t)  v == Verdict(t)  e == Expected(t) IN
    /\ Agree(e)
    /\ (v = "budget") <=> OverBudget(PadLen(toks), DepthOf(toks))
    /\ (v = "ok") => (Len(Shape(t)) > 0 /\ e.kip = Kind(t))
    /\ (v # "ok") => (e.kql # "kql" /\ e.kml # "kml" /\ e.meta # "meta")
    \* the operator towers stay out of the band the specification leaves undecided
    /\ (Cases[ci][1] \in {"ops-bang", "ops-minus", "ops-and", "ops-or", "ops-not-group"})
          => FLevels(t[3][2][2]) \notin {FilterCeiling + 1, FilterCeiling + 2}

ASSUME PrintT(<<"TABLE", ToJson([str |-> StrBody, raw |-> RawBody])>>)
=============================================================================
