----------------------------- MODULE ServerAuth -----------------------------
(***************************************************************************)
(* C14: who may reach what over the HTTP service (rs/anda_db_server:       *)
(* auth.rs authorize, api/mod.rs execute_rpc / require_auth / dispatch_*,  *)
(* state.rs register_db / close_db / set_db_api_key / remove_db_api_key /  *)
(* connect).  The server runs with an admin key.                           *)
(*                                                                         *)
(*   exists : databases that were ever created on the store                *)
(*   open   : databases registered and served (reopened after a restart)   *)
(*   bound  : database -> the key currently bound to it ("" = none); a     *)
(*            binding survives close / reopen / restart                    *)
(*                                                                         *)
(* A request is (scope, method kind, token).  Its CLASS is decided in this *)
(* order, as in execute_rpc:                                               *)
(*   "401"      not the admin key, and not the key bound to the addressed  *)
(*              database (root scope: admin only) - identical whatever the *)
(*              addressed database is                                      *)
(*   "nomethod" the method name does not exist in that scope               *)
(*   "nodb"     authorized, but the database is not open (404)             *)
(*   "reached"  the handler ran                                            *)
(***************************************************************************)
EXTENDS Naturals, Sequences, FiniteSets

CONSTANTS Dbs, Keys, Primary

NoKey == ""
VARIABLES exists, open, bound
svars == <<exists, open, bound>>

Init == exists = {} /\ open = {} /\ bound = [d \in Dbs |-> NoKey]

---------------------------------------------------------------------------
(* administrative history: each operation with the status class it must return *)
Create(d, k) ==
  IF d \in exists THEN [res |-> "conflict", exists |-> exists, open |-> open, bound |-> bound]
  ELSE [res |-> "ok", exists |-> exists \cup {d}, open |-> open \cup {d},
        bound |-> IF k = NoKey THEN bound ELSE [bound EXCEPT ![d] = k]]
Open(d) ==
  IF d \in exists THEN [res |-> "ok", exists |-> exists, open |-> open \cup {d}, bound |-> bound]
  ELSE [res |-> "notfound", exists |-> exists, open |-> open, bound |-> bound]
Close(d) ==
  IF d \in open THEN [res |-> "ok", exists |-> exists, open |-> open \ {d}, bound |-> bound]    \* the binding stays
  ELSE [res |-> "notfound", exists |-> exists, open |-> open, bound |-> bound]
SetKey(d, k) ==
  IF d \in open THEN [res |-> "ok", exists |-> exists, open |-> open, bound |-> [bound EXCEPT ![d] = k]]
  ELSE [res |-> "notfound", exists |-> exists, open |-> open, bound |-> bound]
\* db.set_api_key WITHOUT a key: the server generates one, binds it and returns it (abstractly: the key "g" + d)
GenFor(d) == "g" \o d
GenKey(d) == SetKey(d, GenFor(d))
\* the primary database holds the registry and the key hashes: it can never be delegated to a per-database key,
\* whether the key is supplied or generated
PrimaryRefused == [res |-> "conflict", exists |-> exists, open |-> open, bound |-> bound]
RemoveKey(d) ==
  IF d \in open THEN [res |-> "ok", exists |-> exists, open |-> open, bound |-> [bound EXCEPT ![d] = NoKey]]
  ELSE [res |-> "notfound", exists |-> exists, open |-> open, bound |-> bound]
\* a restart reopens what was registered and reloads the persisted bindings: the abstract state is unchanged
Restart == [res |-> "ok", exists |-> exists, open |-> open, bound |-> bound]

Apply(op) ==
  CASE op[1] = "create"    -> Create(op[2], op[3])
    [] op[1] = "open"      -> Open(op[2])
    [] op[1] = "close"     -> Close(op[2])
    [] op[1] = "setkey"    -> IF op[2] = Primary THEN PrimaryRefused ELSE SetKey(op[2], op[3])
    [] op[1] = "genkey"    -> IF op[2] = Primary THEN PrimaryRefused ELSE GenKey(op[2])
    [] op[1] = "removekey" -> RemoveKey(op[2])
    [] op[1] = "restart"   -> Restart

---------------------------------------------------------------------------
(* the request matrix *)
Scopes == {"root", Primary} \cup Dbs \cup {"missing", "bad"}
Tokens == {"none", "garbage", "adm"} \cup Keys
MethodKinds == {"root", "db", "both", "unknown"}      \* "both": `info` exists in either scope

Principal(scope, tok) ==
  IF tok = "adm" THEN "admin"
  ELSE IF scope \in Dbs /\ bound[scope] # NoKey /\ bound[scope] = tok THEN "db"
  ELSE "401"

Class(scope, tok, mk) ==
  IF Principal(scope, tok) = "401" THEN "401"
  ELSE IF scope = "root"
       THEN (IF mk \in {"root", "both"} THEN "reached" ELSE "nomethod")
       ELSE IF mk \notin {"db", "both"} THEN "nomethod"
            ELSE IF scope = Primary \/ scope \in open THEN "reached" ELSE "nodb"

\* what `info` shows to the caller: the whole instance to the admin, only its own database to a key holder
InfoDatabases(scope, tok) ==
  IF Principal(scope, tok) = "admin" THEN open \cup {Primary} ELSE {scope}

---------------------------------------------------------------------------
(* C14, first half, as properties of the matrix *)
\* a key confines its holder to the database it is bound to
Confined ==
  \A tok \in Keys, scope \in Scopes, mk \in MethodKinds :
     Class(scope, tok, mk) # "401" => scope \in Dbs /\ bound[scope] = tok
\* a rejected caller learns nothing: the class is "401" whatever database is addressed
Uniform ==
  \A tok \in Tokens \ {"adm"}, mk \in MethodKinds :
     \A s1, s2 \in Scopes \ {"root"} :
        (Principal(s1, tok) = "401" /\ Principal(s2, tok) = "401") => Class(s1, tok, mk) = Class(s2, tok, mk)
\* a revoked key is worth nothing anywhere
RevokedUseless ==
  \A tok \in Keys : (\A d \in Dbs : bound[d] # tok) => \A scope \in Scopes, mk \in MethodKinds : Class(scope, tok, mk) = "401"

\* the unauthenticated development mode (no admin key: every caller is the admin) must refuse to start while
\* any per-database key is bound - also one of a closed database, which a later db.open would expose
KeylessStart == IF \E d \in Dbs : bound[d] # NoKey THEN "refused" ELSE "ok"

(* second half: the methods the service classifies as cancellable reads (api/mod.rs, MethodEffect::Read) *)
ReadMethods == {"info", "db.list", "db.metadata", "db.stats", "db.get_extension", "collection.list",
                "collection.metadata", "collection.stats", "collection.get_extension", "doc.get", "doc.get_many",
                "doc.exists", "doc.count", "doc.search", "doc.search_ids", "doc.query_ids", "doc.query_last_ids"}
WritesAllowed(method) == IF method \in ReadMethods THEN 0 ELSE 1
=============================================================================
