--------------------------- MODULE MC_BTreeConc ---------------------------
(* Exhaustive interleavings: every thread runs a program of up to ProgLen calls chosen from Ops; all        *)
(* programs, all initial layouts in Layouts, all interleavings at the yield points.  The linearized         *)
(* content (ghost `lin`) is advanced at each call's linearization point: the posting step.                  *)
EXTENDS BTreeConc, TLC

CONSTANTS ProgLen, Tier

Ops == {<<"insert", id, k>> : id \in Ids, k \in Keys} \cup {<<"remove", id, k>> : id \in Ids, k \in Keys}
       \cup {<<"compact", 0, 0>>}

VARIABLES prog, ip
mcvars == <<cvars, prog, ip>>

\* initial layouts: empty; every key with id 1 in bucket 0 (clean, flushed); keys spread over two buckets
L0 == [has |-> {}, post |-> [k \in Keys |-> NoPost], lst |-> [b \in Buckets |-> {}], bex |-> {0}, maxb |-> 0]
L1 == [has |-> Keys, post |-> [k \in Keys |-> [b |-> 0, ids |-> {1}]],
       lst |-> [b \in Buckets |-> IF b = 0 THEN Keys ELSE {}], bex |-> {0}, maxb |-> 0]
L2 == LET kx == CHOOSE k \in Keys : TRUE IN
      [has |-> Keys, post |-> [k \in Keys |-> [b |-> IF k = kx THEN 0 ELSE 1, ids |-> {1}]],
       lst |-> [b \in Buckets |-> IF b = 0 THEN {kx} ELSE IF b = 1 THEN Keys \ {kx} ELSE {}],
       bex |-> {0, 1}, maxb |-> 1]
Layouts == {L0, L1, L2}

Progs == UNION {[1..n -> Ops] : n \in 1..ProgLen}

MCInit ==
  /\ \E L \in Layouts :
       /\ has = L.has /\ post = L.post /\ lst = L.lst /\ bex = L.bex /\ maxb = L.maxb
       /\ bt = L.has /\ dirty = {}
       /\ durable = [b \in Buckets |-> [k \in Keys |-> IF k \in L.has /\ L.post[k].b = b THEN L.post[k].ids ELSE {}]]
  /\ pc = [t \in Threads |-> Idle]
  /\ prog \in [Threads -> Progs]
  /\ ip = [t \in Threads |-> 1]

Cur(t) == prog[t][ip[t]]
HasNext(t) == ip[t] <= Len(prog[t])

MCNext ==
  \E t \in Threads :
    \/ /\ HasNext(t) /\ Cur(t)[1] = "insert" /\ InsStart(t, Cur(t)[2], Cur(t)[3]) /\ UNCHANGED <<prog, ip>>
    \/ /\ InsPosting(t) /\ UNCHANGED <<prog, ip>>
    \/ /\ InsBtree(t) /\ UNCHANGED <<prog, ip>>
    \/ /\ \E m \in BOOLEAN : InsBucket(t, m) /\ UNCHANGED <<prog, ip>>
    \/ /\ InsEnd(t) /\ UNCHANGED <<prog, ip>>
    \/ /\ HasNext(t) /\ Cur(t)[1] = "remove" /\ RemPosting(t, Cur(t)[2], Cur(t)[3]) /\ UNCHANGED <<prog, ip>>
    \/ /\ RemNothing(t) /\ UNCHANGED <<prog, ip>>
    \/ /\ RemEntry(t) /\ UNCHANGED <<prog, ip>>
    \/ /\ RemBucket(t) /\ UNCHANGED <<prog, ip>>
    \/ /\ HasNext(t) /\ Cur(t)[1] = "compact"
       /\ \E nb \in 1..(MaxB + 1) : \E h \in [has -> 0..(nb - 1)] : Compact(t, nb, h)
       /\ UNCHANGED <<prog, ip>>
    \/ /\ Return(t) /\ ip' = [ip EXCEPT ![t] = @ + 1] /\ UNCHANGED prog
MCSpec == MCInit /\ [][MCNext]_mcvars
=============================================================================
