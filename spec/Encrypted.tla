------------------------------ MODULE Encrypted ------------------------------
(***************************************************************************)
(* C09: EncryptedStore as a SYMBOLIC (Dolev-Yao style) model of what its   *)
(* authentication structure covers                                         *)
(* (rs/anda_object_store/src/encryption.rs: verify_metadata,               *)
(* metadata_auth_aad, chunk_aad, derive_gcm_nonce, get_opts, get_ranges,   *)
(* head, list).                                                            *)
(*                                                                         *)
(* A commit of a key writes two backend objects:                           *)
(*   doc   = [path, size, etag, base, tags, cs, av, g, m, sealed]          *)
(*           the metadata document; `sealed` is the GMAC over the PATH and *)
(*           every field of SealedFields, unforgeable: the attacker can    *)
(*           copy documents and change fields but cannot make `sealed`     *)
(*           match changed content;                                        *)
(*   blob  = <<chunk_1, .., chunk_n>>, chunk_i = [base, idx, cs, plain]    *)
(*           ciphertext under the nonce derived from (base, idx) with the  *)
(*           associated data (cs, idx); its GCM tag is tags[i] in the doc. *)
(* The attacker controls the backend: any single-site manipulation of the  *)
(* Tamper actions below.  Read transcribes the checks of the code; the     *)
(* property is that a read that does not fail returns a value that was     *)
(* committed for THAT key (the current one, or - when a whole sealed       *)
(* document of an earlier commit of the same key is put back while its     *)
(* payload still exists - that earlier one: a rollback no keyed scheme     *)
(* without external state can exclude; it returns originally written       *)
(* bytes).                                                                 *)
(***************************************************************************)
EXTENDS Naturals, Sequences, FiniteSets

CONSTANTS Keys, Commits    \* Commits: the committed history, a sequence of [k, ver, n]  (n = number of chunks)

SealedFields == {"size", "etag", "base", "tags", "cs", "av", "g", "m"}
AllFields == SealedFields \cup {"an", "at"}          \* + the seal's own nonce and tag

\* the genuine objects of commit c (base nonce and generation are fresh per commit: c itself)
Chunk(c, i) == [base |-> c, idx |-> i, cs |-> 1, plain |-> <<Commits[c].k, Commits[c].ver, i>>]
Blob(c) == [i \in 1..Commits[c].n |-> Chunk(c, i)]
Doc(c) == [path |-> Commits[c].k, size |-> Commits[c].n, etag |-> c, base |-> c,
           tags |-> [i \in 1..Commits[c].n |-> Chunk(c, i)],      \* a tag authenticates exactly that chunk
           cs |-> 1, av |-> 1, g |-> c, m |-> c,
           sealed |-> [path |-> Commits[c].k, c |-> c], strip |-> {}]

CommitIds == 1..Len(Commits)
Latest(k) == CHOOSE c \in CommitIds : Commits[c].k = k /\ \A d \in CommitIds : Commits[d].k = k => d <= c
Live == {Latest(k) : k \in {Commits[c].k : c \in CommitIds}}

VARIABLES
  meta,    \* [Keys -> document or "none"]        meta/<k>
  blobs,   \* [Keys \X CommitIds -> blob or <<>>]  gen/<k>/<g>
  tampered \* has the attacker acted yet (single-site: at most one action)

evars == <<meta, blobs, tampered>>

NoDoc == [path |-> "", size |-> 0, etag |-> 0, base |-> 0, tags |-> <<>>, cs |-> 0, av |-> 0, g |-> 0, m |-> 0,
          sealed |-> [path |-> "", c |-> 0], strip |-> {}]

\* the backend after the committed history; replaced generations of a key are still there (not yet
\* collected), which is the most favourable situation for the attacker
Init ==
  /\ meta = [k \in Keys |-> IF \E c \in CommitIds : Commits[c].k = k THEN Doc(Latest(k)) ELSE NoDoc]
  /\ blobs = [p \in Keys \X CommitIds |-> IF Commits[p[2]].k = p[1] THEN Blob(p[2]) ELSE <<>>]
  /\ tampered = FALSE

---------------------------------------------------------------------------
(* what the code checks *)

\* verify_metadata: both seal fields present and the GMAC matches path + every sealed field;
\* a document without any seal field is legacy only if it carries neither av nor g
SealOk(k, d) ==
  /\ d.strip = {}
  /\ d.sealed.path = k
  /\ \E c \in CommitIds : d.sealed.c = c /\ \A f \in SealedFields : d[f] = Doc(c)[f]
LegacyOk(d, strict) == d.strip = {"an", "at"} /\ ~strict /\ d.av = 0 /\ d.g = 0
MetaOk(k, d, strict) == d # NoDoc /\ (SealOk(k, d) \/ LegacyOk(d, strict))

\* a chunk decrypts iff its GCM tag (from the document) is the tag of exactly that ciphertext under
\* the nonce (document's base, position) and the associated data (document's chunk size, position)
ChunkOk(d, i, ch) ==
  /\ i <= Len(d.tags)
  /\ d.tags[i] = ch /\ ch.base = d.base /\ ch.idx = i /\ ch.cs = d.cs

\* get: failure or the sequence of plaintext chunks
Fail == [ok |-> FALSE, data |-> <<>>]
Read(k, strict) ==
  LET d == meta[k] IN
  IF ~MetaOk(k, d, strict) THEN Fail
  ELSE IF d.size = 0 THEN [ok |-> TRUE, data |-> <<>>]          \* an empty object has no payload to read
  ELSE IF d.g \notin CommitIds \/ blobs[<<k, d.g>>] = <<>> THEN Fail
  ELSE LET b == blobs[<<k, d.g>>] IN
       IF Len(b) # d.size \/ \E i \in 1..Len(b) : ~ChunkOk(d, i, b[i]) THEN Fail
       ELSE [ok |-> TRUE, data |-> [i \in 1..Len(b) |-> b[i].plain]]

Original(c) == [i \in 1..Commits[c].n |-> Chunk(c, i).plain]

\* C09
ReadOriginalOrFail ==
  \A k \in Keys, strict \in BOOLEAN :
     LET r == Read(k, strict) IN
     ~r.ok \/ \E c \in CommitIds : Commits[c].k = k /\ r.data = Original(c)

\* no nonce is used for two different chunks under the one key
NonceUnique ==
  \A p, q \in Keys \X CommitIds :
     \A i \in 1..Len(blobs[p]), j \in 1..Len(blobs[q]) :
        blobs[p][i].base = blobs[q][j].base /\ blobs[p][i].idx = blobs[q][j].idx => blobs[p][i].plain = blobs[q][j].plain

---------------------------------------------------------------------------
(* the attacker: one manipulation *)
Act(A) == ~tampered /\ A /\ tampered' = TRUE

\* change one metadata field to a different value (a flipped byte in the document)
FlipField(k, f) ==
  /\ meta[k] # NoDoc
  /\ meta' = [meta EXCEPT ![k] = [@ EXCEPT ![f] = IF f = "tags" THEN <<>> ELSE 77]]
  /\ UNCHANGED blobs
\* re-point at another existing generation of the key
Repoint(k, c) ==
  /\ meta[k] # NoDoc /\ Commits[c].k = k /\ c # meta[k].g
  /\ meta' = [meta EXCEPT ![k].g = c]
  /\ UNCHANGED blobs
\* strip authentication fields (one, or both)
Strip(k, fs) ==
  /\ meta[k] # NoDoc
  /\ meta' = [meta EXCEPT ![k].strip = fs]
  /\ UNCHANGED blobs
\* strip both AND the fields whose presence betrays the stripping
StripAll(k) ==
  /\ meta[k] # NoDoc
  /\ meta' = [meta EXCEPT ![k] = [@ EXCEPT !.strip = {"an", "at"}, !.av = 0, !.g = 0]]
  /\ UNCHANGED blobs
\* put another key's document (or an older document of the same key) at meta/<k>
SwapDoc(k, c) ==
  /\ meta' = [meta EXCEPT ![k] = Doc(c)]
  /\ UNCHANGED blobs
\* exchange whole payload objects
SwapBlob(p, q) ==
  /\ p # q
  /\ blobs' = [blobs EXCEPT ![p] = blobs[q], ![q] = blobs[p]]
  /\ UNCHANGED meta
\* inside one payload: flip a chunk, swap two chunks, drop the last chunk, duplicate the last chunk
FlipChunk(p, i) ==
  /\ i \in 1..Len(blobs[p])
  /\ blobs' = [blobs EXCEPT ![p][i].plain = <<"garbage">>]
  /\ UNCHANGED meta
SwapChunks(p, i, j) ==
  /\ i \in 1..Len(blobs[p]) /\ j \in 1..Len(blobs[p]) /\ i < j
  /\ blobs' = [blobs EXCEPT ![p] = [@ EXCEPT ![i] = blobs[p][j], ![j] = blobs[p][i]]]
  /\ UNCHANGED meta
Truncate(p) ==
  /\ Len(blobs[p]) > 0
  /\ blobs' = [blobs EXCEPT ![p] = SubSeq(@, 1, Len(@) - 1)]
  /\ UNCHANGED meta
Extend(p) ==
  /\ Len(blobs[p]) > 0
  /\ blobs' = [blobs EXCEPT ![p] = Append(@, @[Len(@)])]
  /\ UNCHANGED meta
\* move a chunk of another object into this one at the same position
ForeignChunk(p, q, i) ==
  /\ p # q /\ i \in 1..Len(blobs[p]) /\ i \in 1..Len(blobs[q])
  /\ blobs' = [blobs EXCEPT ![p][i] = blobs[q][i]]
  /\ UNCHANGED meta

Next ==
  \/ \E k \in Keys, f \in SealedFields : Act(FlipField(k, f))
  \/ \E k \in Keys, c \in CommitIds : Act(Repoint(k, c)) \/ Act(SwapDoc(k, c))
  \/ \E k \in Keys, fs \in {{"an"}, {"at"}, {"an", "at"}} : Act(Strip(k, fs))
  \/ \E k \in Keys : Act(StripAll(k))
  \/ \E p, q \in Keys \X CommitIds : Act(SwapBlob(p, q))
  \/ \E p \in Keys \X CommitIds : Act(Truncate(p)) \/ Act(Extend(p))
  \/ \E p \in Keys \X CommitIds, i \in 1..3 : Act(FlipChunk(p, i))
  \/ \E p \in Keys \X CommitIds, i \in 1..3, j \in 1..3 : Act(SwapChunks(p, i, j))
  \/ \E p, q \in Keys \X CommitIds, i \in 1..3 : Act(ForeignChunk(p, q, i))

Spec == Init /\ [][Next]_evars
=============================================================================
