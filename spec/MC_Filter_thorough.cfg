CONSTANT Tier = "thorough"
SPECIFICATION Spec
INVARIANT LawsHold
INVARIANT Emit
CHECK_DEADLOCK FALSE
