------------------------------ MODULE History ------------------------------
(***************************************************************************)
(* C18: a space's history is an append-only sequence of committed points;  *)
(* reading AS OF a point returns what was current when that point was the  *)
(* present (rs/anda_cognitive_nexus: store/history.rs element_at /         *)
(* elements_at / seq_of_transaction / seq_at_time, kql/mod.rs Context).    *)
(*                                                                         *)
(*   snap : committed sequence number -> the answers of a fixed battery of *)
(*          queries recorded while that number was the present             *)
(* Commit(s, d) appends a point; nothing ever changes or removes one       *)
(* (purges are excluded from these histories).  AsOf(s) is a lookup.       *)
(***************************************************************************)
EXTENDS Naturals, Sequences, FiniteSets

CONSTANTS NQ

VARIABLES snap, points
hvars2 == <<snap, points>>

Init == snap = << >> /\ points = {}

Commit(s, d) ==
  /\ s \notin points /\ \A t \in points : t < s
  /\ Len(d) = NQ
  /\ points' = points \cup {s}
  /\ snap' = [t \in points \cup {s} |-> IF t = s THEN d ELSE snap[t]]

AsOf(s) == snap[s]

\* append-only: no later statement changes what a past point answers
AppendOnly == [][\A s \in points : s \in points' /\ snap'[s] = snap[s]]_hvars2
=============================================================================
