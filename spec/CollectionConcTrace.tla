------------------------ MODULE CollectionConcTrace ------------------------
(***************************************************************************)
(* Trace validation for CollectionConc.tla.  The harness                   *)
(* (harness/src/bin/drive_conc.rs) enumerates the release orders of the    *)
(* parked backend calls of 2-3 concurrent operations and records, in one   *)
(* global order:  call(p) | pk(p, call) arrival | be(p, call) execution of *)
(* a mutation | rd(p) execution of a read | ret(p) | obs (final state).    *)
(* An optional lifecycle transition (read-only / close) runs as one more   *)
(* process (C06): operations ADMITTED before it may complete, operations   *)
(* admitted after it must be refused without any backend mutation.         *)
(***************************************************************************)
EXTENDS CollectionConc, Json, IOUtils, TLC, TLCExt

Rec == ndJsonDeserialize(IOEnv.TRACE)
SeqToSet(s) == {s[j] : j \in 1..Len(s)}
PairSet(s) == {<<s[j][1], s[j][2]>> : j \in 1..Len(s)}

Hdr == Rec[2]
TrIndex  == DOMAIN Hdr.kinds
TrKind   == [i \in TrIndex |-> Hdr.kinds[i]]
TrVal    == 1..Hdr.nvals
TrTerms  == [i \in TrIndex |-> [v \in TrVal |-> SeqToSet(Hdr.terms[i][v])]]
TrIdxSet == SeqToSet(Hdr.init_idx)
TrMaxId  == Hdr.max_id
TrStride == Hdr.stride
TrProc   == 1..Hdr.nprocs

VARIABLES l,
  gate      \* "open" | "ro" | "closing": the lifecycle transition of C06 (admission closes)
tvars == <<cvars, l, gate>>

Ev == Rec[l]
IsEv(e) == l <= Len(Rec) /\ Ev.e = e /\ l' = l + 1

TrReset == IsEv("reset") /\ UNCHANGED <<cvars, gate>>

\* a new behaviour starts from the observed state of the collection after the (sequential) prefix
TrInit ==
  /\ IsEv("init")
  /\ LET o == Ev.state IN
     /\ doc' = [id \in Id |-> IF \E j \in 1..Len(o.docs) : o.docs[j][1] = id
                              THEN o.docs[CHOOSE j \in 1..Len(o.docs) : o.docs[j][1] = id][2] ELSE NoDoc]
     /\ ids' = SeqToSet(o.ids)
     /\ idx' = [i \in Index |-> IF i \in IdxSet
                                THEN [h |-> IF Kind[i] = "bt" \/ Kind[i] = "btu" THEN {}
                                            ELSE {q[1] : q \in PairSet(o.idx[i])},
                                      p |-> IF Kind[i] = "hn" THEN {} ELSE PairSet(o.idx[i])]
                                ELSE EmptyIdx]
     /\ maxId' = o.maxid
     /\ ext' = o.ext
     /\ used' = 1..o.maxid
  /\ wm' = Ev.wm
  /\ intents' = {}
  /\ cur' = [p \in Proc |-> IdleRec]
  /\ gate' = "open"

P == Ev.p

\* Admission (mutation_lease): a shared operation gets its lease when it is first polled unless a
\* flush holds or awaits the exclusive side (the lock is fair: readers queue behind a waiting
\* writer); it then gets it when that flush returns.  The lifecycle check comes AFTER the lease, so
\* an operation that was not admitted before the transition is refused.  `adm` records admission.
FlushAhead(p) == \E q \in Proc \ {p} : ~IsIdle(q) /\ cur[q].op = "flush"
Refused(p) ==
  /\ gate # "open" /\ cur[p].st = "called"
  /\ \/ (cur[p].op \in SharedOps /\ ~cur[p].adm)
     \/ cur[p].op = "flush"
WithAdm(c, p) ==
  [c EXCEPT ![p] = [x \in DOMAIN c[p] \cup {"adm"} |->
                      IF x = "adm" THEN gate = "open" /\ ~FlushAhead(p) ELSE c[p][x]]]

TrCall ==
  /\ IsEv("call")
  /\ CASE Ev.op = "add"    -> CallAdd(P, Ev.val)
       [] Ev.op = "update" -> CallUpdate(P, Ev.id, Ev.val)
       [] Ev.op = "remove" -> CallRemove(P, Ev.id)
       [] Ev.op = "ext"    -> CallExt(P, Ev.x)
       [] Ev.op = "flush"  -> CallFlush(P)
       [] Ev.op = "get"    -> CallGet(P, Ev.id)
       [] Ev.op \in {"ro", "closeh"} -> Call(P, [st |-> "called", op |-> Ev.op])
       [] OTHER -> FALSE
  /\ UNCHANGED gate

TrCallShared ==
  /\ IsEv("call") /\ Ev.op \in SharedOps
  /\ IsIdle(P)
  /\ LET rec == CASE Ev.op = "add"    -> [st |-> "called", op |-> "add", val |-> Ev.val, id |-> 0, floor |-> maxId]
                  [] Ev.op = "update" -> [st |-> "called", op |-> "update", id |-> Ev.id, val |-> Ev.val, prev |-> NoDoc, member |-> Ev.id \in ids]
                  [] Ev.op = "remove" -> [st |-> "called", op |-> "remove", id |-> Ev.id, prev |-> NoDoc, member |-> Ev.id \in ids]
                  [] Ev.op = "ext"    -> [st |-> "called", op |-> "ext", x |-> Ev.x]
     IN cur' = WithAdm([cur EXCEPT ![P] = rec], P)
  /\ UNCHANGED <<doc, ids, idx, maxId, wm, ext, intents, used, gate>>

\* arrival of a process at a backend call: the synchronous section before it
TrPk ==
  /\ IsEv("pk")
  /\ ~Refused(P)
  /\ LET op == cur[P].op st == cur[P].st IN
     CASE op = "add" /\ Ev.cls = "wm" -> AddArriveWm(P)
       [] op = "add" /\ Ev.cls = "doc" /\ Ev.kind = "put" -> AddArriveDoc(P, Ev.id)
       [] op \in {"update", "remove"} /\ Ev.cls = "doc" /\ Ev.kind = "get" /\ st = "called" -> ModArriveGet(P) /\ Ev.id = cur[P].id
       [] op \in {"update", "remove"} /\ Ev.cls = "intent" -> ModArriveIntent(P)
       [] op = "update" /\ Ev.cls = "doc" /\ Ev.kind = "put" -> UpdArriveDoc(P) /\ Ev.id = cur[P].id
       [] op = "remove" /\ Ev.cls = "doc" /\ Ev.kind = "delete" -> RemArriveDoc(P) /\ Ev.id = cur[P].id
       [] op = "ext" /\ Ev.cls = "col_meta" -> ExtArrive(P)
       [] op = "flush" /\ st = "called" -> FlushEnter(P)
       [] op = "flush" /\ st = "flushing" -> FlushStep(P)
       [] op = "closeh" /\ st \in {"called", "flushing"} ->
            \* the closing flush: exclusive like any flush
            /\ (st = "called" => NoneEntered(P))
            /\ cur' = [cur EXCEPT ![P].st = "flushing"]
            /\ UNCHANGED <<doc, ids, idx, maxId, wm, ext, intents, used>>
       [] op = "get" -> UNCHANGED cvars                     \* reads of a reader: any time
       [] OTHER -> FALSE
  /\ UNCHANGED gate

\* execution of a mutation
TrBe ==
  /\ IsEv("be") /\ Ev.res = "ok"
  /\ LET op == cur[P].op IN
     CASE op = "add" /\ Ev.cls = "wm" -> AddExecWm(P, Ev.val)
       [] op = "add" /\ Ev.cls = "doc" -> AddExecDoc(P) /\ Ev.id = cur[P].id /\ Ev.val = cur[P].val /\ Ev.mode = "create"
       [] op \in {"update", "remove"} /\ Ev.cls = "intent" /\ Ev.kind = "put" ->
            ModExecIntent(P, Ev.seq, Ev.id, Ev.prev, Ev.post)
       [] op = "update" /\ Ev.cls = "doc" -> UpdExecDoc(P) /\ Ev.id = cur[P].id /\ Ev.val = cur[P].val /\ Ev.mode = "update"
       [] op = "remove" /\ Ev.cls = "doc" -> RemExecDoc(P) /\ Ev.id = cur[P].id /\ Ev.kind = "delete"
       [] op = "ext" /\ Ev.cls = "col_meta" -> ExtExec(P, Ev.ext)
       [] op \in {"flush", "closeh"} /\ Ev.cls = "intent" /\ Ev.kind = "delete" ->
            \* (intents retained from the untraced prefix are retired too)
            /\ cur[P].st = "flushing"
            /\ intents' = intents \ {Ev.seq}
            /\ UNCHANGED <<doc, ids, idx, maxId, wm, ext, used, cur>>
       [] op \in {"flush", "closeh"} /\ Ev.cls = "col_ids" ->
            \* what a concurrent flush persists is the state after a prefix of the serial order
            /\ cur[P].st = "flushing" /\ SeqToSet(Ev.ids) = ids /\ UNCHANGED cvars
       [] op \in {"flush", "closeh"} /\ Ev.cls = "col_meta" ->
            /\ cur[P].st = "flushing" /\ Ev.maxid >= maxId /\ Ev.ext = ext /\ UNCHANGED cvars
       [] op \in {"flush", "closeh"} /\ Ev.cls \in {"idx_obj", "idx_commit", "cp"} ->
            /\ cur[P].st = "flushing" /\ UNCHANGED cvars
       [] OTHER -> FALSE
  /\ UNCHANGED gate

\* execution of a read: no effect of its own (a writer reads under its document lock)
TrRd == IsEv("rd") /\ ~IsIdle(P) /\ UNCHANGED <<cvars, gate>>

TrRet ==
  /\ IsEv("ret")
  /\ LET op == cur[P].op IN
     IF Refused(P)
     THEN \* admission was closed before the operation entered: refused, and nothing was written
          /\ Ev.op = op /\ ~Ev.ok
          /\ cur' = [cur EXCEPT ![P] = IdleRec]
          /\ UNCHANGED <<doc, ids, idx, maxId, wm, ext, intents, used, gate>>
     ELSE
     CASE Ev.op = "add" /\ Ev.ok     -> AddRetOk(P) /\ Ev.id = cur[P].id /\ UNCHANGED gate
       [] Ev.op = "add" /\ ~Ev.ok    -> AddRetReject(P) /\ UNCHANGED gate
       [] Ev.op = "update" /\ Ev.ok  -> UpdRetOk(P) /\ UNCHANGED gate
       [] Ev.op = "update" /\ ~Ev.ok -> UpdRetReject(P) /\ UNCHANGED gate
       [] Ev.op = "remove" /\ Ev.ok /\ Ev.found  -> RemRetFound(P) /\ UNCHANGED gate
       [] Ev.op = "remove" /\ Ev.ok /\ ~Ev.found -> RemRetNone(P) /\ UNCHANGED gate
       [] Ev.op = "ext" /\ Ev.ok     -> ExtRet(P) /\ UNCHANGED gate
       [] Ev.op = "flush" /\ Ev.ok   ->
            /\ cur[P].op = "flush"
            /\ (cur[P].st = "flushing" \/ (cur[P].st = "called" /\ NoneEntered(P)))
            /\ cur' = [q \in Proc |->
                        IF q = P THEN IdleRec
                        ELSE IF cur[q].st = "called" /\ cur[q].op \in SharedOps /\ ~cur[q].adm
                             THEN [cur[q] EXCEPT !.adm = (gate = "open")]
                             ELSE cur[q]]
            /\ UNCHANGED <<doc, ids, idx, maxId, wm, ext, intents, used, gate>>
       [] Ev.op = "get" /\ Ev.ok     -> GetRet(P, Ev.val) /\ UNCHANGED gate
       [] Ev.op = "get" /\ ~Ev.ok    -> GetRet(P, NoDoc) /\ UNCHANGED gate
       [] Ev.op = "ro" /\ Ev.ok      ->
            /\ op = "ro" /\ gate' = "ro"
            /\ cur' = [cur EXCEPT ![P] = IdleRec]
            /\ UNCHANGED <<doc, ids, idx, maxId, wm, ext, intents, used>>
       [] Ev.op = "closeh" /\ Ev.ok  ->
            \* close drains: it returns only when no admitted operation is left
            /\ op = "closeh" /\ NoneEntered(P)
            /\ gate' = "closing"
            /\ cur' = [cur EXCEPT ![P] = IdleRec]
            /\ UNCHANGED <<doc, ids, idx, maxId, wm, ext, intents, used>>
       [] OTHER -> FALSE

\* the transition publishes its state when it is first polled, i.e. at its call (set_read_only is
\* synchronous; close publishes Closing + read-only before it waits for the gate)
TrCallTransition ==
  /\ IsEv("call") /\ Ev.op \in {"ro", "closeh"}
  /\ Call(P, [st |-> "called", op |-> Ev.op])
  /\ gate' = (IF Ev.op = "ro" THEN "ro" ELSE "closing")

TrObs ==
  /\ IsEv("obs")
  /\ AllIdle
  /\ Ev.state = "Active"
  /\ SeqToSet(Ev.ids) = ids
  /\ Ev.len = Cardinality(ids)
  /\ Ev.maxid >= maxId
  /\ Ev.ext = ext
  /\ {Ev.docs[j][1] : j \in 1..Len(Ev.docs)} = ids
  /\ \A j \in 1..Len(Ev.docs) : doc[Ev.docs[j][1]] = Ev.docs[j][2]
  /\ \A i \in IdxSet : i \in DOMAIN Ev.idx /\ PairSet(Ev.idx[i]) = Obs(i, idx[i])
  /\ UNCHANGED <<cvars, gate>>

TrState ==
  /\ IsEv("state") /\ AllIdle
  /\ Ev.v = (CASE gate = "open" -> "Active" [] gate = "ro" -> "Active" [] gate = "closing" -> "Closed")
  /\ UNCHANGED <<cvars, gate>>

TraceInit ==
  /\ l = 1 /\ gate = "open"
  /\ doc = [id \in Id |-> NoDoc] /\ ids = {} /\ idx = [i \in Index |-> EmptyIdx]
  /\ maxId = 0 /\ wm = 0 /\ ext = 0 /\ intents = {} /\ used = {}
  /\ cur = [p \in Proc |-> IdleRec]

TraceNext ==
  \/ TrReset \/ TrInit
  \/ (TrCall /\ Ev.op \in {"flush", "get"})
  \/ TrCallShared
  \/ TrCallTransition
  \/ TrPk \/ TrBe \/ TrRd \/ TrRet \/ TrObs \/ TrState

TraceSpec == TraceInit /\ [][TraceNext]_tvars

TraceAccepted ==
  LET d == TLCGet("stats").diameter IN
  IF d - 1 = Len(Rec) THEN TRUE
  ELSE /\ PrintT(<<"TRACE_REJECTED", d, ToJson(Rec[d])>>)
       /\ FALSE
=============================================================================
