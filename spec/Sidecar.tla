------------------------------- MODULE Sidecar -------------------------------
(***************************************************************************)
(* C08: the immutable-generation protocol shared by MetaStore and          *)
(* EncryptedStore (rs/anda_object_store/src/sidecar.rs, lib.rs,            *)
(* encryption.rs), at the grain of ONE ACTION PER INNER-STORE MUTATION:    *)
(*                                                                         *)
(*   put      : mint a generation (registered in flight) ; write the       *)
(*              payload object gen/<k>/<g> ; switch the pointer meta/<k>   *)
(*              (THE commit point) ; reclaim the replaced payload          *)
(*   copy     : copy the source payload to a fresh generation of the       *)
(*              target (in flight) ; switch the target's pointer ; reclaim *)
(*   delete   : delete the pointer (commit point) ; then the payload       *)
(*   rename   : copy ; delete(source)                                      *)
(*   collect_garbage : floor ; mark every commit point ; list candidates ; *)
(*              per candidate: in-flight check, re-read of the commit      *)
(*              point, delete                                              *)
(*   crash    : everything volatile (in-flight registry, program counters) *)
(*              is lost at any point                                       *)
(*                                                                         *)
(* Generations are natural numbers in minting order (the code uses a       *)
(* millisecond timestamp + salt; the collector skips generations minted at *)
(* or after its floor).                                                    *)
(*                                                                         *)
(* Legacy (pre-0.10) objects: a commit point WITHOUT a generation refers   *)
(* to the mutable payload data/<k>.  They are modelled as the distinguished*)
(* generation Leg, which is never minted: such objects exist only in the   *)
(* initial state (InitWith), referenced by a pointer or orphaned.  The     *)
(* first overwrite migrates the key (the switch replaces Leg, the reclaim  *)
(* removes data/<k>); the collector treats data/<k> as a candidate without *)
(* a floor and without an in-flight check (it has no generation), only the *)
(* re-read of the commit point protects it.                                *)
(***************************************************************************)
EXTENDS Naturals, FiniteSets, Sequences

CONSTANTS Key, Val, Proc, MaxGen

NoPtr == [g |-> 0, v |-> 0]
Leg == 1000000          \* the "generation" of a legacy payload data/<k>

VARIABLES
  meta,      \* [Key -> [g, v]]   meta/<k> : pointer + what was committed (g = 0: absent)
  gen,       \* set of <<k, g, v>> payload objects on the backend
  nextGen,   \* next generation number
  inflight,  \* set of <<k, g>>  (volatile)
  pc,        \* [Proc -> record]  (volatile) operation in progress
  gc         \* collector state (volatile): [st, floor, marked, cands]

svars == <<meta, gen, nextGen, inflight, pc, gc>>

Idle == [st |-> "idle"]
GcIdle == [st |-> "idle", floor |-> 0, marked |-> [k \in Key |-> 0], cands |-> {}]

Init ==
  /\ meta = [k \in Key |-> NoPtr] /\ gen = {} /\ nextGen = 1 /\ inflight = {}
  /\ pc = [p \in Proc |-> Idle] /\ gc = GcIdle

\* a store inherited from the pre-0.10 layout: `ptr` = legacy commit points, `orph` = legacy payloads
\* without one (both: [subset of Key -> Val], disjoint domains)
InitWith(ptr, orph) ==
  /\ meta = [k \in Key |-> IF k \in DOMAIN ptr THEN [g |-> Leg, v |-> ptr[k]] ELSE NoPtr]
  /\ gen = {<<k, Leg, ptr[k]>> : k \in DOMAIN ptr} \cup {<<k, Leg, orph[k]>> : k \in DOMAIN orph}
  /\ nextGen = 1 /\ inflight = {}
  /\ pc = [p \in Proc |-> Idle] /\ gc = GcIdle

Present(k) == meta[k].g # 0
PayloadOf(k) == {o \in gen : o[1] = k /\ o[2] = meta[k].g}

---------------------------------------------------------------------------
(* put(k, v) *)
PutMint(p, k, v) ==
  /\ pc[p].st = "idle" /\ nextGen <= MaxGen
  /\ pc' = [pc EXCEPT ![p] = [st |-> "minted", op |-> "put", k |-> k, v |-> v, g |-> nextGen, old |-> 0]]
  /\ inflight' = inflight \cup {<<k, nextGen>>}
  /\ nextGen' = nextGen + 1
  /\ UNCHANGED <<meta, gen, gc>>

\* the payload goes to a FRESH immutable object
WritePayload(p) ==
  /\ pc[p].st = "minted" /\ pc[p].op = "put"
  /\ \A o \in gen : ~(o[1] = pc[p].k /\ o[2] = pc[p].g)
  /\ gen' = gen \cup {<<pc[p].k, pc[p].g, pc[p].v>>}
  /\ pc' = [pc EXCEPT ![p].st = "payload"]
  /\ UNCHANGED <<meta, nextGen, inflight, gc>>

(* copy(a, b): the payload of a is copied into a fresh generation of b *)
CopyMint(p, a, b) ==
  /\ pc[p].st = "idle" /\ nextGen <= MaxGen /\ Present(a) /\ a # b
  /\ pc' = [pc EXCEPT ![p] = [st |-> "minted", op |-> "copy", k |-> b, src |-> a, v |-> meta[a].v,
                               sg |-> meta[a].g, g |-> nextGen, old |-> 0]]
  /\ inflight' = inflight \cup {<<b, nextGen>>}
  /\ nextGen' = nextGen + 1
  /\ UNCHANGED <<meta, gen, gc>>

CopyPayload(p) ==
  /\ pc[p].st = "minted" /\ pc[p].op = "copy"
  /\ <<pc[p].src, pc[p].sg, pc[p].v>> \in gen            \* the source payload is there
  /\ gen' = gen \cup {<<pc[p].k, pc[p].g, pc[p].v>>}
  /\ pc' = [pc EXCEPT ![p].st = "payload"]
  /\ UNCHANGED <<meta, nextGen, inflight, gc>>

\* the pointer switch: one backend put, the only commit point.  Writers of one key are serialized
\* by the per-key section: no other process is between its payload write and its switch on that key.
SwitchPointer(p) ==
  /\ pc[p].st = "payload"
  /\ meta' = [meta EXCEPT ![pc[p].k] = [g |-> pc[p].g, v |-> pc[p].v]]
  /\ pc' = [pc EXCEPT ![p].st = "switched", ![p].old = meta[pc[p].k].g]
  /\ UNCHANGED <<gen, nextGen, inflight, gc>>

\* best effort: the replaced payload is garbage now
ReclaimOld(p) ==
  /\ pc[p].st = "switched" /\ pc[p].old # 0
  /\ gen' = {o \in gen : ~(o[1] = pc[p].k /\ o[2] = pc[p].old)}
  /\ pc' = [pc EXCEPT ![p].old = 0]
  /\ UNCHANGED <<meta, nextGen, inflight, gc>>

Finish(p) ==
  /\ pc[p].st = "switched"
  /\ inflight' = inflight \ {<<pc[p].k, pc[p].g>>}
  /\ pc' = [pc EXCEPT ![p] = Idle]
  /\ UNCHANGED <<meta, gen, nextGen, gc>>

(* delete(k): commit point first, then the payload *)
DeleteMeta(p, k) ==
  /\ pc[p].st = "idle" /\ Present(k)
  /\ meta' = [meta EXCEPT ![k] = NoPtr]
  /\ pc' = [pc EXCEPT ![p] = [st |-> "unlinked", op |-> "delete", k |-> k, g |-> meta[k].g]]
  /\ UNCHANGED <<gen, nextGen, inflight, gc>>

DeletePayload(p) ==
  /\ pc[p].st = "unlinked"
  /\ gen' = {o \in gen : ~(o[1] = pc[p].k /\ o[2] = pc[p].g)}
  /\ pc' = [pc EXCEPT ![p] = Idle]
  /\ UNCHANGED <<meta, nextGen, inflight, gc>>

DeleteDone(p) ==       \* the best-effort payload delete may be skipped (failure is only logged)
  /\ pc[p].st = "unlinked"
  /\ pc' = [pc EXCEPT ![p] = Idle]
  /\ UNCHANGED <<meta, gen, nextGen, inflight, gc>>

---------------------------------------------------------------------------
(* collect_garbage *)
GcStart ==
  /\ gc.st = "idle"
  /\ gc' = [st |-> "mark", floor |-> nextGen, marked |-> [k \in Key |-> 0], cands |-> {}]
  /\ UNCHANGED <<meta, gen, nextGen, inflight, pc>>

\* mark: snapshot of every commit point (one read per key, in any order)
GcMark(k) ==
  /\ gc.st = "mark" /\ gc.marked[k] = 0
  /\ gc' = [gc EXCEPT !.marked[k] = meta[k].g + 1]      \* +1: distinguishes "read, absent" from "not read"
  /\ UNCHANGED <<meta, gen, nextGen, inflight, pc>>

\* sweep: candidates = listed payloads below the floor that the snapshot does not reference
GcList ==
  /\ gc.st = "mark" /\ \A k \in Key : gc.marked[k] # 0
  /\ gc' = [gc EXCEPT !.st = "sweep",
                      !.cands = {o \in gen : (o[2] = Leg \/ o[2] < gc.floor) /\ gc.marked[o[1]] - 1 # o[2]}]
  /\ UNCHANGED <<meta, gen, nextGen, inflight, pc>>

\* per candidate: skip when in flight or referenced NOW, else delete
GcSkip(o) ==
  /\ gc.st = "sweep" /\ o \in gc.cands
  /\ (<<o[1], o[2]>> \in inflight \/ meta[o[1]].g = o[2])
  /\ gc' = [gc EXCEPT !.cands = @ \ {o}]
  /\ UNCHANGED <<meta, gen, nextGen, inflight, pc>>

GcDelete(o) ==
  /\ gc.st = "sweep" /\ o \in gc.cands
  /\ <<o[1], o[2]>> \notin inflight /\ meta[o[1]].g # o[2]
  /\ gen' = gen \ {o}
  /\ gc' = [gc EXCEPT !.cands = @ \ {o}]
  /\ UNCHANGED <<meta, nextGen, inflight, pc>>

GcEnd ==
  /\ gc.st = "sweep" /\ gc.cands = {}
  /\ gc' = GcIdle
  /\ UNCHANGED <<meta, gen, nextGen, inflight, pc>>

---------------------------------------------------------------------------
Crash ==
  /\ inflight' = {} /\ pc' = [p \in Proc |-> Idle] /\ gc' = GcIdle
  /\ UNCHANGED <<meta, gen, nextGen>>

---------------------------------------------------------------------------
(* C08 *)
\* every committed key resolves to exactly the payload committed with it - in every state, hence
\* after every crash and after every collector step
PointerValid == \A k \in Key : Present(k) => <<k, meta[k].g, meta[k].v>> \in gen

\* payload objects are immutable: one value per (key, generation)
Immutable == \A o1, o2 \in gen : o1[1] = o2[1] /\ o1[2] = o2[2] => o1[3] = o2[3]

\* what a cold read returns: the committed value, or nothing
Read(k) == IF Present(k) THEN meta[k].v ELSE 0
=============================================================================
