------------------------------- MODULE MC_Bm25 -------------------------------
(* Exhaustive histories of insert / remove (with ANY text, original or not) / purge over a small universe. *)
EXTENDS Bm25, TLC
CONSTANTS MaxOps, Texts
VARIABLES n
MCInit == Init /\ n = 0
MCNext ==
  /\ n < MaxOps /\ n' = n + 1
  /\ \/ \E id \in Ids, bag \in Texts : Insert(id, bag)
     \/ \E id \in Ids, bag \in Texts : Remove(id, bag)
     \/ \E S \in SUBSET Ids : S # {} /\ Purge(S)
MCSpec == MCInit /\ [][MCNext]_<<bvars, n>>
TextSet == {[t \in Tok |-> IF t = 1 THEN a ELSE IF t = 2 THEN b ELSE 0] : a \in 0..2, b \in 0..1}
=============================================================================
