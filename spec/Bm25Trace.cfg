CONSTANTS
  Tok <- TrTok
  Ids <- TrIds
  Sweep <- TrSweep
SPECIFICATION TraceSpec
INVARIANT Exact
INVARIANT LenExact
INVARIANT LoadIsCommitted
POSTCONDITION TraceAccepted
CHECK_DEADLOCK FALSE
