----------------------------- MODULE Governance -----------------------------
(***************************************************************************)
(* C19 - the read decision of the Governance Control Plane as a pure       *)
(* function of a governance configuration and an element.                  *)
(*                                                                         *)
(* Mirrors rs/anda_cognitive_nexus/src/governance/decision.rs              *)
(*   EffectiveAuthority::resolve  (live principal -> groups, grants,       *)
(*                                 delegations resolved against the        *)
(*                                 delegator's CURRENT authority, named    *)
(*                                 chains)                                 *)
(*   EffectiveAuthority::authorize (inactive -> explicit deny -> allows:   *)
(*                                 owner, candidates, policy allows ->     *)
(*                                 default deny; least restrictive allow   *)
(*                                 carries the constraints)                *)
(*   may_read / reads_whole_space                                          *)
(* and rs/anda_cognitive_nexus/src/governance/rows.rs                      *)
(*   AuthorityScope::contains, AuthorityConditions::contains,              *)
(*   AuthorityConstraints::contains (attenuation: an UNSTATED child        *)
(*   ceiling / bound is never inside a STATED parent one).                 *)
(*                                                                         *)
(* Two places where the PROPERTY and decision.rs part; each is a switch so  *)
(* that TLC can enumerate both readings (TRUE = the property, the oracle   *)
(* the check uses; FALSE = as built, used only to attribute a mismatch):   *)
(*   PolicyCeilingApplies  - a ceiling is "the highest classification      *)
(*     readable" (rows.rs) for every allow that carries one, a policy      *)
(*     allow statement included; decision.rs applies reaches_classification *)
(*     to Grants / Delegations only.                                       *)
(*   RedelegatorMustBeLive - "a delegation never confers more than its     *)
(*     delegator currently holds": a re-delegation made by a principal     *)
(*     that is suspended / revoked confers nothing; decision.rs checks the *)
(*     liveness of the ROOT delegator only.                                *)
(*                                                                         *)
(* A configuration is a record                                             *)
(*   pstat   : [principal -> "active" | "suspended" | "revoked"]           *)
(*   owners  : set of principals that own the Space                        *)
(*   sstat   : "active" | "suspended"       (the MemorySpace)              *)
(*   members : members of the one group "g"                                *)
(*   ctx     : [principal -> [strength, purpose, pa, chain]]  the host's   *)
(*             AuthContext of that principal's session                     *)
(*   grants  : sequence of Grants       (creation order = row id order)    *)
(*   delegs  : sequence of Delegations  (parent = index or 0)              *)
(*   policy  : sequence of policy statements of the bound policy           *)
(* Times are integers, evaluated at the fixed instant Now; 0 = unstated.   *)
(* Classification ranks: public 0, internal 1, private 2, sensitive 3,     *)
(* secret 4; -1 = unstated (ceiling: none; element: the Space default).    *)
(***************************************************************************)
EXTENDS Integers, Sequences, FiniteSets

CONSTANTS PolicyCeilingApplies, RedelegatorMustBeLive

Now == 10
NoCeil == -1
DefaultCls == 1                  \* classification::DEFAULT = internal (never public, §95)
MaxDepth == 8                    \* MAX_DELEGATION_DEPTH

AnyScope == [kinds |-> {}, types |-> {}, classes |-> {}, elems |-> {}]
AnyCond  == [from |-> 0, until |-> 0, strength |-> 0, purpose |-> {}, pa |-> 0]
\* AuthorityConstraints::default(): export FALSE.  fields {} = every field.
AnyCons  == [fields |-> {}, ceil |-> NoCeil, infl |-> NoCeil, export |-> FALSE]

(* ------------------------------ elements -------------------------------- *)
Cls(e) == IF e.cls = -1 THEN DefaultCls ELSE e.cls

Covers(bound, v) == bound = {} \/ v \in bound
ScopeMatches(s, e) ==
  /\ Covers(s.kinds, e.kind)
  /\ Covers(s.types, e.type)
  /\ Covers(s.classes, Cls(e))
  /\ Covers(s.elems, e.id)
Reaches(cons, e) == cons.ceil = NoCeil \/ Cls(e) <= cons.ceil

(* --------------------------- attenuation -------------------------------- *)
Narrows(parent, child) == parent = {} \/ (child # {} /\ child \subseteq parent)
AtLeast(parent, child) == parent = 0 \/ (child # 0 /\ child >= parent)
AtMost(parent, child)  == parent = 0 \/ (child # 0 /\ child <= parent)
\* rows.rs within_ceiling: an empty child is unbounded, which no stated parent contains
WithinCeiling(parent, child) == parent = NoCeil \/ (child # NoCeil /\ child <= parent)

ScopeContains(par, ch) ==
  /\ Narrows(par.kinds, ch.kinds)
  /\ Narrows(par.types, ch.types)
  /\ Narrows(par.classes, ch.classes)
  /\ Narrows(par.elems, ch.elems)
CondContains(par, ch) ==
  /\ Narrows(par.purpose, ch.purpose)
  /\ ch.pa >= par.pa
  /\ ch.strength >= par.strength
  /\ AtLeast(par.from, ch.from)
  /\ AtMost(par.until, ch.until)
ConsContains(par, ch) ==
  /\ Narrows(par.fields, ch.fields)
  /\ WithinCeiling(par.infl, ch.infl)
  /\ WithinCeiling(par.ceil, ch.ceil)
  /\ (par.export \/ ~ch.export)
Inside(par, ch) ==
  ScopeContains(par.scope, ch.scope) /\ CondContains(par.cond, ch.cond) /\ ConsContains(par.cons, ch.cons)

(* ----------------------------- conditions ------------------------------- *)
ConditionsHold(c, x) ==
  /\ (c.from = 0 \/ Now >= c.from)
  /\ (c.until = 0 \/ Now < c.until)
  /\ x.strength >= c.strength
  /\ x.pa >= c.pa
  /\ (c.purpose = {} \/ x.purpose \in c.purpose)

(* ------------------------------ resolve --------------------------------- *)
Live(cfg, p)    == cfg.pstat[p] = "active"
IsOwner(cfg, p) == Live(cfg, p) /\ p \in cfg.owners
GroupsOf(cfg, p) == IF Live(cfg, p) /\ p \in cfg.members THEN {"g"} ELSE {}

Cand(acts, scope, cond, cons, deleg) ==
  [acts |-> acts, scope |-> scope, cond |-> cond, cons |-> cons, deleg |-> deleg]
CandOfGrant(g) == Cand(g.acts, g.scope, g.cond, g.cons, g.deleg)

\* grants_for: the direct Grants first, then the group's, each in row order
GrantCands(cfg, p) ==
  LET direct == SelectSeq(cfg.grants, LAMBDA g : g.status = "active" /\ ~g.grp /\ g.to = p)
      group  == IF "g" \in GroupsOf(cfg, p)
                THEN SelectSeq(cfg.grants, LAMBDA g : g.status = "active" /\ g.grp)
                ELSE <<>>
      all == direct \o group
  IN [i \in 1..Len(all) |-> CandOfGrant(all[i])]

RECURSIVE CandidatesOf(_, _, _), ResolveDeleg(_, _, _), DelegCands(_, _, _, _)

\* <<>> = confers nothing, <<candidate>> otherwise
ResolveDeleg(cfg, d, depth) ==
  IF depth >= MaxDepth THEN <<>>
  ELSE IF d.parent # 0 THEN
    LET l == cfg.delegs[d.parent] IN
    \* the property: "a delegation never confers more than its delegator currently holds" - a
    \* re-delegation made by a principal that is no longer active confers nothing (decision.rs checks the
    \* liveness of the ROOT delegator only)
    IF l.status # "active" \/ l.to # d.from \/ ~l.redeleg \/ (RedelegatorMustBeLive /\ ~Live(cfg, d.from)) THEN <<>>
    ELSE LET inh == ResolveDeleg(cfg, l, depth + 1) IN
      IF inh = <<>> THEN <<>>
      ELSE IF ~Inside(inh[1], d) THEN <<>>
      ELSE LET acts == d.acts \cap inh[1].acts IN
        IF acts = {} THEN <<>> ELSE << Cand(acts, d.scope, d.cond, d.cons, FALSE) >>
  ELSE
    \* §31: what the delegator can actually confer RIGHT NOW
    LET pc  == CandidatesOf(cfg, d.from, depth + 1)
        own == IsOwner(cfg, d.from)
        acts == {a \in d.acts : own \/ \E i \in 1..Len(pc) :
                                   pc[i].deleg /\ a \in pc[i].acts /\ Inside(pc[i], d)}
    IN IF acts = {} THEN <<>> ELSE << Cand(acts, d.scope, d.cond, d.cons, FALSE) >>

DelegCands(cfg, p, depth, i) ==
  IF i > Len(cfg.delegs) THEN <<>>
  ELSE LET d == cfg.delegs[i] IN
    (IF d.status = "active" /\ d.to = p THEN ResolveDeleg(cfg, d, depth) ELSE <<>>)
      \o DelegCands(cfg, p, depth, i + 1)

CandidatesOf(cfg, p, depth) ==
  IF ~Live(cfg, p) THEN <<>> ELSE GrantCands(cfg, p) \o DelegCands(cfg, p, depth, 1)

\* resolve_named_chain: "ok" FALSE = the whole request is refused (NotAuthorized)
NamedChain(cfg, p, chain) ==
  LET n == Len(chain)
      linkOk(k) == /\ cfg.delegs[chain[k]].status = "active"
                   /\ (k > 1 => /\ cfg.delegs[chain[k]].parent = chain[k - 1]
                                /\ cfg.delegs[chain[k - 1]].redeleg)
  IN IF \A k \in 1..n : linkOk(k) /\ cfg.delegs[chain[n]].to = p
     THEN [ok |-> TRUE, cands |-> ResolveDeleg(cfg, cfg.delegs[chain[n]], 0)]
     ELSE [ok |-> FALSE, cands |-> <<>>]

\* EffectiveAuthority::resolve for the acting principal
Resolved(cfg, p) ==
  LET chain == cfg.ctx[p].chain IN
  IF ~Live(cfg, p) THEN [ok |-> TRUE, cands |-> <<>>]
  ELSE IF chain = <<>> THEN [ok |-> TRUE, cands |-> CandidatesOf(cfg, p, 0)]
  ELSE NamedChain(cfg, p, chain)

(* ----------------------------- authorize -------------------------------- *)
\* res = SpaceRes (a command gate: no element in view) or an element record
SpaceRes == [id |-> 0, kind |-> "", type |-> "", cls |-> -1]
IsSpace(res) == res.id = 0

StatementMatches(cfg, p, st, perm, res) ==
  /\ (st.principals = {} \/ p \in st.principals)
  /\ (st.groups = {} \/ st.groups \cap GroupsOf(cfg, p) # {})
  /\ (st.acts = {} \/ perm \in st.acts)
  /\ (IsSpace(res) \/ ScopeMatches(st.scope, res))
  /\ ConditionsHold(st.cond, cfg.ctx[p])

CandidateMatches(cfg, p, c, perm, res) ==
  /\ perm \in c.acts
  /\ (IsSpace(res) \/ (ScopeMatches(c.scope, res) /\ Reaches(c.cons, res)))
  /\ ConditionsHold(c.cond, cfg.ctx[p])

Denied(cfg, p, perm, res) ==
  \E i \in 1..Len(cfg.policy) :
     cfg.policy[i].effect = "deny" /\ StatementMatches(cfg, p, cfg.policy[i], perm, res)

OwnerCand == Cand({}, AnyScope, AnyCond, [AnyCons EXCEPT !.export = TRUE], TRUE)

\* the allows, in the order authorize() collects them
Allows(cfg, p, perm, res) ==
  LET r == Resolved(cfg, p)
      own == IF IsOwner(cfg, p) THEN << OwnerCand >> ELSE <<>>
      cs == SelectSeq(r.cands, LAMBDA c : CandidateMatches(cfg, p, c, perm, res))
      ps == SelectSeq(cfg.policy, LAMBDA st :
                /\ st.effect = "allow"
                /\ StatementMatches(cfg, p, st, perm, res)
                \* the property: a ceiling limits every allow that carries one
                /\ (IsSpace(res) \/ ~PolicyCeilingApplies \/ Reaches(st.cons, res)))
  IN own \o cs \o [i \in 1..Len(ps) |-> Cand(ps[i].acts, ps[i].scope, ps[i].cond, ps[i].cons, FALSE)]

Restrictiveness(c) ==
  Cardinality(c.scope.kinds) + Cardinality(c.scope.types) + Cardinality(c.scope.classes)
  + Cardinality(c.scope.elems) + Cardinality(c.cons.fields)
  + (IF c.cons.export THEN 0 ELSE 1) + (IF c.cons.ceil = NoCeil THEN 0 ELSE 1)

\* Iterator::min_by_key: the FIRST of the equally minimal allows
Chosen(as) ==
  LET m == CHOOSE k \in {Restrictiveness(as[i]) : i \in 1..Len(as)} :
              \A i \in 1..Len(as) : k <= Restrictiveness(as[i])
      j == CHOOSE i \in 1..Len(as) : Restrictiveness(as[i]) = m
                                     /\ \A h \in 1..(i - 1) : Restrictiveness(as[h]) # m
  IN as[j]

Permitted(cfg, p, perm, res) ==
  /\ Live(cfg, p)
  /\ cfg.sstat = "active"
  /\ Resolved(cfg, p).ok
  /\ ~Denied(cfg, p, perm, res)
  /\ Allows(cfg, p, perm, res) # <<>>

MayRead(cfg, p, e) == Permitted(cfg, p, "read", e)
ReadableSet(cfg, p, pop) == {i \in 1..Len(pop) : MayRead(cfg, p, pop[i])}
\* the field mask the read of e carries ({} = every field)
MaskOf(cfg, p, e) == Chosen(Allows(cfg, p, "read", e)).cons.fields

Unrestricted(c) == c.scope = AnyScope /\ c.cons.fields = {} /\ c.cons.ceil = NoCeil
\* reads_whole_space: what a Space-wide count may be built from
Whole(cfg, p) ==
  \/ IsOwner(cfg, p) /\ cfg.sstat = "active" /\ Resolved(cfg, p).ok
  \/ (Permitted(cfg, p, "read", SpaceRes) /\ Unrestricted(Chosen(Allows(cfg, p, "read", SpaceRes))))

Held(cfg, p, perms) == {q \in perms : Permitted(cfg, p, q, SpaceRes)}

(* ------------------ laws the oracle is checked against ------------------- *)
\* what p holds before any deny is consulted
Holds(cfg, p, e) == Live(cfg, p) /\ cfg.sstat = "active" /\ Resolved(cfg, p).ok /\ Allows(cfg, p, "read", e) # <<>>

HasAuthority(cfg, p) ==
  \/ p \in cfg.owners
  \/ \E i \in 1..Len(cfg.grants) : LET g == cfg.grants[i] IN
        g.status = "active" /\ "read" \in g.acts /\ ((~g.grp /\ g.to = p) \/ (g.grp /\ p \in cfg.members))
  \/ \E i \in 1..Len(cfg.delegs) : cfg.delegs[i].status = "active" /\ cfg.delegs[i].to = p
  \/ \E i \in 1..Len(cfg.policy) : cfg.policy[i].effect = "allow"

DefaultDeny(cfg, p, pop) == ~HasAuthority(cfg, p) => ReadableSet(cfg, p, pop) = {}
Inactive(cfg, p, pop) == (~Live(cfg, p) \/ cfg.sstat # "active") => ReadableSet(cfg, p, pop) = {}
DenyWins(cfg, p, pop) == \A i \in 1..Len(pop) : Denied(cfg, p, "read", pop[i]) => ~MayRead(cfg, p, pop[i])
\* a revoked Grant / Delegation is as good as one that was never written
Strike(seq, i) == [k \in 1..Len(seq) |-> IF k = i THEN [seq[k] EXCEPT !.acts = {}] ELSE seq[k]]
RevokedIsAbsent(cfg, p, pop) ==
  /\ \A i \in 1..Len(cfg.grants) : cfg.grants[i].status # "active" =>
        ReadableSet(cfg, p, pop) = ReadableSet([cfg EXCEPT !.grants = Strike(cfg.grants, i)], p, pop)
  /\ \A i \in 1..Len(cfg.delegs) : cfg.delegs[i].status # "active" =>
        ReadableSet(cfg, p, pop) = ReadableSet([cfg EXCEPT !.delegs = Strike(cfg.delegs, i)], p, pop)
\* an authority whose window is closed at Now confers nothing
ExpiredIsAbsent(cfg, p, pop) ==
  \A i \in 1..Len(cfg.grants) :
     LET c == cfg.grants[i].cond IN
     ((c.until # 0 /\ Now >= c.until) \/ (c.from # 0 /\ Now < c.from)) =>
        \* the Grant itself matches nothing; what was delegated from it is inside its window, so it lapsed too
        ReadableSet(cfg, p, pop) = ReadableSet([cfg EXCEPT !.grants = Strike(cfg.grants, i)], p, pop)
\* Delegation attenuation: what a Delegation confers on its delegate, the delegator holds through an
\* authority it may delegate (or as owner) - element by element, ceilings and scopes included.
DelegableHolds(cfg, q, e) ==
  \/ IsOwner(cfg, q)
  \/ LET cs == CandidatesOf(cfg, q, 0) IN
       \E i \in 1..Len(cs) : cs[i].deleg /\ "read" \in cs[i].acts /\ ScopeMatches(cs[i].scope, e) /\ Reaches(cs[i].cons, e)
RECURSIVE Root(_, _)
Root(cfg, d) == IF d.parent = 0 THEN d.from ELSE Root(cfg, cfg.delegs[d.parent])
Attenuation(cfg, pop) ==
  \A i \in 1..Len(cfg.delegs) :
    LET d == cfg.delegs[i]
        c == IF d.status = "active" THEN ResolveDeleg(cfg, d, 0) ELSE <<>>
    IN c # <<>> /\ "read" \in c[1].acts =>
         \A k \in 1..Len(pop) :
            (ScopeMatches(c[1].scope, pop[k]) /\ Reaches(c[1].cons, pop[k]))
               => /\ Live(cfg, d.from)
                  /\ DelegableHolds(cfg, Root(cfg, d), pop[k])
                  \* every link of the chain reaches the element too
                  /\ (d.parent # 0 =>
                        LET up == ResolveDeleg(cfg, cfg.delegs[d.parent], 0) IN
                        up # <<>> /\ ScopeMatches(up[1].scope, pop[k]) /\ Reaches(up[1].cons, pop[k]))
WholeReadsAll(cfg, p, pop) == (Whole(cfg, p) /\ Permitted(cfg, p, "read", SpaceRes)) => ReadableSet(cfg, p, pop) = 1..Len(pop)

Laws(cfg, P, pop) ==
  /\ \A p \in P : /\ DefaultDeny(cfg, p, pop)
                  /\ Inactive(cfg, p, pop)
                  /\ DenyWins(cfg, p, pop)
                  /\ RevokedIsAbsent(cfg, p, pop)
                  /\ ExpiredIsAbsent(cfg, p, pop)
                  /\ WholeReadsAll(cfg, p, pop)
  /\ Attenuation(cfg, pop)
=============================================================================
