CONSTANT Tier = "quick"
CONSTANT PolicyCeilingApplies = TRUE
CONSTANT RedelegatorMustBeLive = TRUE
SPECIFICATION Spec
INVARIANT Emit
INVARIANT LDefaultDeny
INVARIANT LInactive
INVARIANT LDenyWins
INVARIANT LRevoked
INVARIANT LExpired
INVARIANT LWhole
INVARIANT LAttenuation
INVARIANT LawsHold
CHECK_DEADLOCK FALSE
