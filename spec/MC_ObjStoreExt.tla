--------------------------- MODULE MC_ObjStoreExt ---------------------------
(* Family "ext" of C07: every state of ObjStoreExt.tla reachable by at most N     *)
(* state-building calls (put, multipart complete / abort, delete, copy, rename    *)
(* over four nested keys), and in EACH of them the whole battery of observations  *)
(* (conditional get / head incl. dates, lists and precedence; list variants) with *)
(* the expected answers.  The call history is hidden by the VIEW: one witness per *)
(* distinct state.                                                                *)
EXTENDS ObjStoreExt, TLC, Json

CONSTANTS N

VARIABLES s, hist
vars == <<s, hist>>
View == s

MCParts == [k \in {"a", "a/b", "a/b/c", "ab"} |->
              CASE k = "a" -> <<"a">> [] k = "a/b" -> <<"a", "b">> [] k = "a/b/c" -> <<"a", "b", "c">> [] OTHER -> <<"ab">>]
\* "a" < "a/b" < "a/b/c" < "a/c" < "ab"   ('/' sorts before every letter)
MCRank == [k \in {"a", "a/b", "a/b/c", "a/c", "ab"} |->
              CASE k = "a" -> 1 [] k = "a/b" -> 2 [] k = "a/b/c" -> 3 [] k = "a/c" -> 4 [] OTHER -> 5]

Distinct == {q \in Keys \X Keys : q[1] # q[2]}
Build ==
       {<<"put", k, v, "overwrite", NoRef>> : k \in Keys, v \in Vals}
  \cup {<<"mput", k, 2>> : k \in Keys}
  \cup {<<"mabort", k>> : k \in Keys}
  \cup {<<"delete", k>> : k \in Keys}
  \cup {<<"copy", q[1], q[2], "overwrite">> : q \in Distinct}
  \cup {<<"rename", q[1], q[2], "overwrite">> : q \in Distinct}

Dates == {"before", "at", "after"}
C(im, inm, ius, ims) == [im |-> im, inm |-> inm, ius |-> ius, ims |-> ims]
\* the full product of {absent, current token, replaced token} on both tag sides with {absent, before,
\* after} on both date sides (81 combinations: every precedence rule, matched and CROSS pairs), the
\* boundary date "at", "*", and token lists
Tags3 == {NoneT, <<Cur>>, <<Stale>>}
Dates3 == {"none", "before", "after"}
Conds ==
       {C(im, inm, d1, d2) : im \in Tags3, inm \in Tags3, d1 \in Dates3, d2 \in Dates3}
  \cup {C(NoneT, NoneT, "at", "none"), C(NoneT, NoneT, "none", "at"), C(NoneT, NoneT, "at", "at"),
        C(<<Cur>>, NoneT, "none", "at"), C(NoneT, <<Stale>>, "at", "none")}
  \cup {C(StarT, NoneT, "before", "none"), C(StarT, NoneT, "none", "after"), C(NoneT, StarT, "none", "before"),
        C(NoneT, StarT, "before", "none"), C(StarT, StarT, "none", "none"), C(NoneT, <<Bogus>>, "none", "at")}
  \cup {C(<<Bogus, Cur>>, NoneT, "none", "none"), C(<<Stale, Bogus>>, NoneT, "none", "none"),
        C(<<Bogus, Stale, Cur>>, NoneT, "none", "after"),
        C(NoneT, <<Bogus, Cur>>, "none", "none"), C(NoneT, <<Stale, Bogus>>, "before", "none"),
        C(NoneT, <<Cur, Bogus>>, "none", "none")}
\* head shares the evaluation with get: a sample of the conditions
HeadConds ==
  {C(NoneT, NoneT, "none", "none"), C(NoneT, NoneT, "before", "none"), C(NoneT, NoneT, "none", "after"),
   C(<<Cur>>, NoneT, "none", "after"), C(NoneT, <<Stale>>, "before", "none"), C(<<Stale>>, NoneT, "none", "none"),
   C(NoneT, <<Cur>>, "none", "none"), C(StarT, NoneT, "none", "none"), C(NoneT, StarT, "none", "none"),
   C(<<Cur>>, <<Stale>>, "before", "after"), C(<<Bogus, Cur>>, NoneT, "none", "none")}

ListPrefixes == {<<>>, <<"a">>, <<"a", "b">>, <<"a", "b", "c">>, <<"ab">>, <<"x">>}
ObsCalls ==
       {<<"cond", "get", k, c>> : k \in Keys, c \in Conds}
  \cup {<<"cond", "head", k, c>> : k \in Keys, c \in HeadConds}
  \cup {<<"list", pp>> : pp \in ListPrefixes}
  \cup {<<"list_offset", pp, off>> : pp \in {<<>>, <<"a">>}, off \in DOMAIN MCRank}
  \cup {<<"list_delim", pp>> : pp \in ListPrefixes}
ObsSeq == SetToSeq(ObsCalls)

MCInit == s = S0 /\ hist = <<>>
MCNext ==
  /\ Len(hist) < N
  /\ \E c \in Build :
       /\ s' = DoX(s, c).s
       /\ hist' = Append(hist, [call |-> c, res |-> DoX(s, c).res])
MCSpec == MCInit /\ [][MCNext]_vars

TokenFreshInv == TokenFresh(s)

Emit ==
  PrintT(<<"REPLAY", ToJson([prefix |-> hist,
                             obs |-> [i \in 1..Len(ObsSeq) |-> [call |-> ObsSeq[i], res |-> Obs(s, ObsSeq[i])]],
                             listing |-> Listing(s)])>>)
=============================================================================
