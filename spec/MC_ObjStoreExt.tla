--------------------------- MODULE MC_ObjStoreExt ---------------------------
(* Family "ext" of C07: every state of ObjStoreExt.tla reachable by at most N     *)
(* state-building calls (put, multipart complete / abort, delete, copy, rename    *)
(* over four nested keys), and in EACH of them the whole battery of observations  *)
(* (conditional get / head incl. dates, lists and precedence; list variants) with *)
(* the expected answers.  The call history is hidden by the VIEW: one witness per *)
(* distinct state.                                                                *)
EXTENDS ObjStoreExt, TLC, Json

CONSTANTS N

VARIABLES s, hist
vars == <<s, hist>>
View == s

MCParts == [k \in {"a", "a/b", "a/b/c", "ab"} |->
              CASE k = "a" -> <<"a">> [] k = "a/b" -> <<"a", "b">> [] k = "a/b/c" -> <<"a", "b", "c">> [] OTHER -> <<"ab">>]
\* "a" < "a/b" < "a/b/c" < "a/c" < "ab"   ('/' sorts before every letter)
MCRank == [k \in {"a", "a/b", "a/b/c", "a/c", "ab"} |->
              CASE k = "a" -> 1 [] k = "a/b" -> 2 [] k = "a/b/c" -> 3 [] k = "a/c" -> 4 [] OTHER -> 5]

Distinct == {q \in Keys \X Keys : q[1] # q[2]}
Build ==
       {<<"put", k, v, "overwrite", NoRef>> : k \in Keys, v \in Vals}
  \cup {<<"mput", k, 2>> : k \in Keys}
  \cup {<<"mabort", k>> : k \in Keys}
  \cup {<<"delete", k>> : k \in Keys}
  \cup {<<"copy", q[1], q[2], "overwrite">> : q \in Distinct}
  \cup {<<"rename", q[1], q[2], "overwrite">> : q \in Distinct}

Dates == {"before", "at", "after"}
C(im, inm, ius, ims) == [im |-> im, inm |-> inm, ius |-> ius, ims |-> ims]
Conds ==
       \* one date condition
       {C(NoneT, NoneT, d, "none") : d \in Dates} \cup {C(NoneT, NoneT, "none", d) : d \in Dates}
       \* both date conditions
  \cup {C(NoneT, NoneT, d1, d2) : d1 \in {"before", "after"}, d2 \in {"before", "after"}}
       \* a tag condition overrides its date condition
  \cup {C(<<Cur>>, NoneT, "before", "none"), C(<<Stale>>, NoneT, "after", "none"), C(StarT, NoneT, "before", "none"),
        C(NoneT, <<Cur>>, "none", "before"), C(NoneT, <<Stale>>, "none", "after"), C(NoneT, <<Bogus>>, "none", "at")}
       \* token lists
  \cup {C(<<Bogus, Cur>>, NoneT, "none", "none"), C(<<Stale, Bogus>>, NoneT, "none", "none"),
        C(<<Bogus, Stale, Cur>>, NoneT, "none", "none"),
        C(NoneT, <<Bogus, Cur>>, "none", "none"), C(NoneT, <<Stale, Bogus>>, "none", "none"),
        C(NoneT, <<Cur, Bogus>>, "none", "none")}
       \* both tag conditions: the match side first
  \cup {C(<<Cur>>, <<Cur>>, "none", "none"), C(<<Stale>>, <<Cur>>, "none", "none"), C(<<Cur>>, <<Stale>>, "none", "none"),
        C(StarT, StarT, "none", "none"), C(<<Bogus>>, NoneT, "none", "after")}

ListPrefixes == {<<>>, <<"a">>, <<"a", "b">>, <<"a", "b", "c">>, <<"ab">>, <<"x">>}
ObsCalls ==
       {<<"cond", h, k, c>> : h \in {"get", "head"}, k \in Keys, c \in Conds}
  \cup {<<"list", pp>> : pp \in ListPrefixes}
  \cup {<<"list_offset", pp, off>> : pp \in {<<>>, <<"a">>}, off \in DOMAIN MCRank}
  \cup {<<"list_delim", pp>> : pp \in ListPrefixes}
ObsSeq == SetToSeq(ObsCalls)

MCInit == s = S0 /\ hist = <<>>
MCNext ==
  /\ Len(hist) < N
  /\ \E c \in Build :
       /\ s' = DoX(s, c).s
       /\ hist' = Append(hist, [call |-> c, res |-> DoX(s, c).res])
MCSpec == MCInit /\ [][MCNext]_vars

TokenFreshInv == TokenFresh(s)

Emit ==
  PrintT(<<"REPLAY", ToJson([prefix |-> hist,
                             obs |-> [i \in 1..Len(ObsSeq) |-> [call |-> ObsSeq[i], res |-> Obs(s, ObsSeq[i])]],
                             listing |-> Listing(s)])>>)
=============================================================================
