CONSTANT Tier = "quick"
CONSTANT PolicyCeilingApplies = FALSE
CONSTANT RedelegatorMustBeLive = FALSE
SPECIFICATION Spec
INVARIANT Emit
CHECK_DEADLOCK FALSE
