CONSTANT Tier = "thorough"
SPECIFICATION BSpec
INVARIANT BLaws
INVARIANT BEmit
CHECK_DEADLOCK FALSE
