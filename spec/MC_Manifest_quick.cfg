CONSTANTS
  Keys = {"x", "y"}
  Ids = {1, 2}
  Buckets = {1, 2}
  MaxVersion = 5
  MaxCrash = 1
SPECIFICATION MCSpec
INVARIANT LoadIsCommitted
INVARIANT ReferencedExist
INVARIANT CleanBucketsDurable
INVARIANT NoDuplicateHomes
CHECK_DEADLOCK FALSE
