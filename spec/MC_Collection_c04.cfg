CONSTANTS
  MaxId = 3
  Val = {1, 2, 3}
  Index = {"k", "a"}
  Kind <- MCKind
  Terms <- MCTerms
  InitIdx = {"k", "a"}
  Wanted <- MCWantedC
  Stride = 1
  FlushOnCreate = TRUE
  MaxCrash = 1
  MaxOps = 5
  OpKinds = {"add", "update", "remove", "flush", "missing"}
  Removable = {}
SPECIFICATION MCSpec
INVARIANT TypeOK
INVARIANT QuiescentExact
INVARIANT RecoverableExact
INVARIANT UniqueHolds
INVARIANT UniqueDocs
INVARIANT IdNotReused
INVARIANT WatermarkCovers
INVARIANT CheckpointCovers
CHECK_DEADLOCK FALSE
