CONSTANTS
  Keys = {1, 2}
  Ids = {1, 2}
  Threads = {1, 2}
  MaxB = 2
  Uniq = FALSE
  ProgLen = 1
  Tier = "quick"
SPECIFICATION MCSpec
INVARIANT OwnerLists
INVARIANT BtreeMatches
INVARIANT DirtyCovers
INVARIANT FlushExact
INVARIANT UniqueHolds
CHECK_DEADLOCK FALSE
