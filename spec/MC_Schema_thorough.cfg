CONSTANT Tier = "thorough"
CONSTANT Fams = {"ax", "val", "bud", "upg", "der"}
SPECIFICATION Spec
INVARIANT Laws
INVARIANT Emit
CHECK_DEADLOCK FALSE
