CONSTANTS
  Dbs = {"a", "b"}
  Keys = {"k1", "k2", "k3", "ga", "gb"}
  Primary = "p"
  MaxLen = 3
SPECIFICATION MCSpec
INVARIANT Confined
INVARIANT Uniform
INVARIANT RevokedUseless
INVARIANT Emit
CHECK_DEADLOCK FALSE
