CONSTANTS
  Ids = {1, 2}
  MaxTag = 3
  MaxCrash = 2
SPECIFICATION MCSpec
INVARIANT Provenance
INVARIANT CommitExact
INVARIANT DurableExact
INVARIANT NoLiveBlobLost
CHECK_DEADLOCK FALSE
