--------------------------- MODULE BTreeConcTrace ---------------------------
(***************************************************************************)
(* Trace validation for BTreeConc.tla: real threads on a real BTreeIndex,  *)
(* parked at every instrumented yield point by the harness scheduler       *)
(* (harness/src/tsched.rs, drive_btree conc).  Each event is "thread t     *)
(* reached point P" with the FULL layout observed at that moment (all      *)
(* other threads are parked outside lock scopes): the step must be the     *)
(* specification's action for the lock scope t just left, and the observed *)
(* layout must be exactly the specification's next state.  At the end the  *)
(* index is flushed and loaded cold: the content must be Content.          *)
(***************************************************************************)
EXTENDS BTreeConc, Json, IOUtils, TLC, TLCExt

Rec == ndJsonDeserialize(IOEnv.TRACE)
SeqToSet(s) == {s[j] : j \in 1..Len(s)}
Hdr == Rec[1]
TrKeys == 1..Hdr.nk
TrIds == 1..Hdr.ni
TrThreads == 0..(Hdr.nthreads - 1)
TrMaxB == Hdr.maxb

VARIABLES l, cur, uniq, gate
tvars == <<cvars, l, cur, uniq, gate>>
Ev == Rec[l]
IsEv(e) == l <= Len(Rec) /\ Ev.e = e /\ l' = l + 1
T == Ev.t

ObsLst(st) == [b \in Buckets |-> IF \E j \in 1..Len(st.lst) : st.lst[j][1] = b
                                 THEN SeqToSet(st.lst[CHOOSE j \in 1..Len(st.lst) : st.lst[j][1] = b][2]) ELSE {}]
ObsPost(st) == [k \in Keys |-> IF k \in SeqToSet(st.has) THEN [b |-> st.post[k][1], ids |-> SeqToSet(st.post[k][2])]
                               ELSE NoPost]
\* the observed layout is exactly the next specification state
Matches(st) ==
  /\ has' = SeqToSet(st.has)
  /\ post' = ObsPost(st)
  /\ bt' = SeqToSet(st.bt)
  /\ bex' = SeqToSet(st.bex)
  /\ dirty' = SeqToSet(st.dirty)
  /\ \A b \in Buckets : b \in bex' => lst'[b] = ObsLst(st)[b]
  /\ maxb' = st.maxb

TrReset ==
  /\ IsEv("reset")
  /\ uniq' = Ev.uniq /\ gate' = Ev.gate
  /\ pc' = [t \in Threads |-> Idle] /\ cur' = [t \in Threads |-> <<"none", 0, 0>>]
  /\ UNCHANGED <<has, post, bt, lst, bex, dirty, maxb, durable>>

TrInit ==
  /\ IsEv("init")
  /\ LET st == Ev.st IN
     /\ has' = SeqToSet(st.has) /\ post' = ObsPost(st) /\ bt' = SeqToSet(st.bt)
     /\ bex' = SeqToSet(st.bex) /\ dirty' = SeqToSet(st.dirty) /\ lst' = ObsLst(st) /\ maxb' = st.maxb
     /\ durable' = [b \in Buckets |-> [k \in Keys |-> IF k \in has' /\ post'[k].b = b /\ k \in lst'[b]
                                                      THEN post'[k].ids ELSE {}]]
  /\ UNCHANGED <<pc, cur, uniq, gate>>

TrCall ==
  /\ IsEv("call")
  /\ pc[T].st = "idle"
  /\ cur' = [cur EXCEPT ![T] = IF Ev.op = "compact" THEN <<"compact", 0, 0>> ELSE <<Ev.op, Ev.id, Ev.k>>]
  /\ UNCHANGED <<cvars, uniq, gate>>

\* thread T reached a yield point: the lock scope it just left
TrPoint ==
  /\ IsEv("pt")
  /\ LET c == cur[T] IN
     CASE Ev.pt = "bt.insert.entry"   -> c[1] = "insert" /\ InsStart(T, c[2], c[3])
       [] Ev.pt = "bt.insert.posting" -> InsPosting(T) /\ pc'[T].st = "ins.posting"
       [] Ev.pt = "bt.insert.btree"   -> InsBtree(T)
       [] Ev.pt = "bt.insert.bucket"  -> \E m \in BOOLEAN : InsBucket(T, m)
       [] Ev.pt = "bt.remove.posting" -> c[1] = "remove" /\ RemPosting(T, c[2], c[3])
       [] Ev.pt = "bt.remove.entry"   -> RemEntry(T)
       [] Ev.pt \in {"bt.compact.snapshot", "bt.compact.cleared"} ->
            \* inside the exclusive section: nothing is observable, no other thread moves
            c[1] = "compact" /\ UNCHANGED cvars
       [] OTHER -> FALSE
  /\ (Ev.pt \notin {"bt.compact.snapshot", "bt.compact.cleared"} => Matches(Ev.st))
  /\ UNCHANGED <<cur, uniq, gate>>

\* the call returned: its last lock scope
TrSeg ==
  /\ IsEv("seg")
  /\ LET c == cur[T] st == Ev.st IN
     CASE pc[T].st = "ins.entry"   -> InsPosting(T) /\ pc'[T].st = "ret"       \* AlreadyExists
       \* AlreadyExists reported before the first yield point (a lock-free fast path is fine as long as the
       \* conflict really exists at that moment)
       [] pc[T].st = "idle" /\ c[1] = "insert" ->
            /\ Uniq /\ c[3] \in has /\ c[2] \notin post[c[3]].ids
            /\ pc' = [pc EXCEPT ![T] = [st |-> "ret", ret |-> -1]]
            /\ UNCHANGED <<has, post, bt, lst, bex, dirty, maxb, durable>>
       [] pc[T].st = "ins.bucket"  -> InsEnd(T)
       [] pc[T].st = "rem.posting" -> RemNothing(T)
       [] pc[T].st = "rem.entry"   -> RemBucket(T)
       [] pc[T].st = "idle" /\ c[1] = "compact" ->
            LET nb == Cardinality(SeqToSet(st.bex))
                h == [k \in has |-> st.post[k][1]] IN Compact(T, nb, h)
       [] OTHER -> FALSE
  /\ Matches(Ev.st)
  /\ UNCHANGED <<cur, uniq, gate>>

TrRet ==
  /\ IsEv("ret")
  /\ pc[T].st = "ret" /\ pc[T].ret = Ev.ret
  /\ Return(T)
  /\ UNCHANGED <<cur, uniq, gate>>

\* quiescent: what the flush wrote, loaded cold, is the content
TrFinal ==
  /\ IsEv("final")
  /\ ~Ev.deadlock
  /\ Quiescent
  /\ \A k \in Keys : SeqToSet(Ev.loaded[k][2]) = Content[k]
  /\ SeqToSet(Ev.loaded_bt) = {k \in Keys : Content[k] # {}}
  /\ UNCHANGED <<cvars, cur, uniq, gate>>

TraceInit ==
  /\ l = 2 /\ uniq = FALSE /\ gate = TRUE
  /\ has = {} /\ post = [k \in Keys |-> NoPost] /\ bt = {} /\ lst = [b \in Buckets |-> {}]
  /\ bex = {0} /\ dirty = {} /\ maxb = 0 /\ durable = [b \in Buckets |-> Empty]
  /\ pc = [t \in Threads |-> Idle] /\ cur = [t \in Threads |-> <<"none", 0, 0>>]
TraceNext == TrReset \/ TrInit \/ TrCall \/ TrPoint \/ TrSeg \/ TrRet \/ TrFinal
TraceSpec == TraceInit /\ [][TraceNext]_tvars

\* Uniq is a constant: all scenarios of one trace file share it (header)
TrUniq == Hdr.uniq

TraceAccepted ==
  LET d == TLCGet("stats").diameter IN
  IF d = Len(Rec) THEN TRUE
  ELSE /\ PrintT(<<"TRACE_REJECTED", d + 1, ToJson(Rec[d + 1])>>)
       /\ FALSE
=============================================================================
