CONSTANTS
  Family = "full"
  N = 3
  Confs = {5}
SPECIFICATION Spec
INVARIANT LawsHold
INVARIANT Emit
CHECK_DEADLOCK FALSE
