CONSTANTS
  Keys <- TrKeys
  Ids <- TrIds
  Threads <- TrThreads
  MaxB <- TrMaxB
  Uniq <- TrUniq
SPECIFICATION TraceSpec
INVARIANT OwnerLists
INVARIANT BtreeMatches
INVARIANT DirtyCovers
INVARIANT FlushExact
INVARIANT UniqueHolds
POSTCONDITION TraceAccepted
CHECK_DEADLOCK FALSE
