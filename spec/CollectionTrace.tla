-------------------------- MODULE CollectionTrace --------------------------
(***************************************************************************)
(* Trace validation (implementation -> specification) for Collection.tla.  *)
(* The harness (harness/src/bin/drive_collection.rs) records one NDJSON    *)
(* line per API call / API return / backend mutation (decoded to abstract  *)
(* fields) / callback marker / crash / observation.  Each line must be     *)
(* explained by the corresponding action of Collection.tla with the logged *)
(* fields; every invariant of the module is evaluated in every state, so   *)
(* every prefix of every trace is checked as a crash point                 *)
(* (RecoverableExact) in addition to the crash runs themselves.            *)
(*                                                                         *)
(* Many traces are concatenated: a "reset" line followed by an "init" line *)
(* starts a new behaviour.  All traces of one file share Wanted / InitIdx  *)
(* / Removable (the driver groups them).                                   *)
(***************************************************************************)
EXTENDS Collection, Json, IOUtils, TLC, TLCExt

Rec == ndJsonDeserialize(IOEnv.TRACE)

SeqToSet(s) == {s[j] : j \in 1..Len(s)}
PairSet(s) == {<<s[j][1], s[j][2]>> : j \in 1..Len(s)}

\* constants taken from the first init record of the file (line 2)
Hdr == Rec[2]
TrIndex   == DOMAIN Hdr.kinds
TrKind    == [i \in TrIndex |-> Hdr.kinds[i]]
TrVal     == 1..Hdr.nvals
TrTerms   == [i \in TrIndex |-> [v \in TrVal |-> SeqToSet(Hdr.terms[i][v])]]
TrWanted  == Hdr.wanted
TrInitIdx == SeqToSet(Hdr.init_idx)
TrRemovable == SeqToSet(Hdr.rm)
TrMaxId   == Hdr.max_id
TrStride  == Hdr.stride

VARIABLES l,
  flt,      \* fault tier: a storage fault was injected into the operation in progress
  skew      \* fault tier: a metadata put of save_extension LANDED but was reported as an error, so the handle's
            \* idea of the metadata object's version is stale: its next metadata put fails its precondition
tvars == <<vars, l, flt, skew>>

Ev == Rec[l]
IsEv(e) == l <= Len(Rec) /\ Ev.e = e /\ l' = l + 1
\* an executed backend mutation: reported Ok, or applied and THEN reported as an error ("fault_landed")
IsBe(c) == IsEv("be") /\ Ev.cls = c /\ Ev.res \in {"ok", "fault_landed"}
\* an injected fault (error returned; applied or not)
IsBeF(c) == IsEv("be") /\ Ev.cls = c /\ Ev.res \in {"fault", "fault_landed"}
Landed == Ev.res = "fault_landed"
Has(f) == f \in DOMAIN Ev

TrReset == IsEv("reset") /\ UNCHANGED vars

\* a new behaviour: all variables take their initial values, whatever they were
TrInit ==
  /\ IsEv("init")
  /\ Ev.wanted = TrWanted /\ SeqToSet(Ev.init_idx) = TrInitIdx /\ SeqToSet(Ev.rm) = TrRemovable
  /\ dDoc' = [id \in Id |-> NoDoc]
  /\ dMeta' = [maxId |-> 0, idx |-> InitIdx, ext |-> 0]
  /\ dIds' = {} /\ dCP' = 0 /\ dWM' = 0 /\ dInt' = {}
  /\ dIdx' = [i \in Index |-> EmptyIdx]
  /\ up' = TRUE
  /\ mIds' = {} /\ mIdx' = [i \in Index |-> EmptyIdx] /\ mMaxId' = 0
  /\ mIdxSet' = InitIdx /\ mExt' = 0 /\ mWM' = 0 /\ mPend' = {}
  /\ dirtyMeta' = FALSE /\ dirtyIdx' = {}
  /\ pc' = "idle" /\ cur' = NoCur /\ nextSeq' = 1
  /\ ackedIds' = {}

---------------------------------------------------------------------------
TrCall ==
  /\ IsEv("call") /\ ~Has("dead")
  /\ CASE Ev.op = "add"     -> AddCall(Ev.val)
       [] Ev.op = "update"  -> IF Ev.id \in mIds THEN UpdCall(Ev.id, Ev.val) ELSE UpdMissing(Ev.id)
       [] Ev.op = "remove"  -> IF Ev.id \in mIds THEN RemCall(Ev.id) ELSE RemMissing(Ev.id)
       [] Ev.op = "flush"   -> FlushCall
       [] Ev.op = "ext"     -> ExtCall(Ev.x)
       [] Ev.op = "compact" -> IF Ev.idx \in mIdxSet THEN CompactCall(Ev.idx) ELSE CompactMissing(Ev.idx)
       [] Ev.op = "reopen"  -> CloseCall
       [] Ev.op = "open"    -> OpenLoad
       [] OTHER -> FALSE

TrRet ==
  /\ IsEv("ret") /\ ~Has("dead")
  /\ CASE \* fault tier: the operation failed and left the handle poisoned - only after an injected
          \* fault; a poisoned handle is a crashed one (nothing volatile survives, only a reopen recovers)
          Has("poisoned") /\ Ev.poisoned   -> ~Ev.ok /\ flt /\ Crash
          \* fault tier: the operation failed and the handle stays healthy
       [] pc = "fail_ret"                  -> ~Ev.ok /\ flt /\ FailRet
       [] Ev.op = "add" /\ Ev.ok        -> AddRet /\ Ev.id = cur.id
       [] Ev.op = "add" /\ ~Ev.ok       -> AddReject
       [] Ev.op = "update" /\ Ev.ok     -> UpdRet
       [] Ev.op = "update" /\ ~Ev.ok    -> IF pc = "miss_ret" THEN MissRet ELSE UpdReject
       [] Ev.op = "remove" /\ Ev.ok     -> IF Ev.found THEN RemRet ELSE MissRet
       [] Ev.op = "flush" /\ Ev.ok      -> FlushRet /\ cur.op = "flush"
       [] Ev.op = "open" /\ Ev.ok       -> FlushRet /\ cur.op = "open"
       [] Ev.op = "close" /\ Ev.ok      -> CloseRet
       [] Ev.op = "ext" /\ Ev.ok        -> ExtRet
       [] Ev.op = "compact" /\ Ev.ok    -> CompactRet
       [] Ev.op = "compact" /\ ~Ev.ok   -> MissRet
       [] OTHER -> FALSE

---------------------------------------------------------------------------
(* backend mutations                                                       *)

TrWm == IsBe("wm") /\ AddWmPut /\ dWM' = Ev.val

---------------------------------------------------------------------------
(* fault tier: injected storage faults.  A fault that did not land changes *)
(* nothing durable; one that landed is the executed mutation (IsBe accepts *)
(* it).  What the handle does next decides which action it was: the steps  *)
(* that keep the handle healthy have their own actions (watermark put,     *)
(* document create + compensating delete, intent put); after any other     *)
(* faulted step the only continuation the specification has is a return    *)
(* that reports the handle POISONED (TrRet), i.e. Crash.                   *)
TrFaultNoLand == IsEv("be") /\ Ev.res = "fault" /\ up /\ pc # "idle" /\ UNCHANGED vars

TrFaultHealthy ==
  \/ IsBeF("wm") /\ AddWmFail(Landed) /\ (Landed => dWM' = Ev.val)
  \/ IsBeF("doc") /\ Ev.kind = "put" /\ Ev.mode = "create" /\ AddDocFail(Landed) /\ cur.id = Ev.id /\ cur.val = Ev.val
  \/ IsBeF("intent") /\ Ev.kind = "put" /\ IntentFail(Ev.seq, Landed)
        /\ Ev.id = cur.id /\ Ev.prev = cur.prev /\ Ev.post = (IF cur.op = "update" THEN cur.val ELSE NoDoc)

\* save_extension / remove_extension: the single metadata put failed.  The extension stays in memory (dirty, a later
\* flush persists it) and the handle stays healthy (trace-level only: Collection.tla has no object versions)
TrExtFail ==
  /\ IsBeF("col_meta") /\ Ev.kind = "put" /\ up /\ pc = "ext_put" /\ CbMayProceed
  /\ dMeta' = IF Landed THEN MemMeta ELSE dMeta
  /\ (Landed => dMeta' = [maxId |-> Ev.maxid, idx |-> SeqToSet(Ev.idx), ext |-> Ev.ext])
  /\ pc' = "fail_ret"
  /\ UNCHANGED <<dDoc, dIds, dCP, dWM, dInt, dIdx, volatile, cur, nextSeq, ackedIds>>

\* the organic consequence of a landed one: the next conditional metadata put of this handle is refused by the
\* store - save_extension fails again (healthy), a flush fails and poisons the handle (the return says so)
TrPrecond ==
  /\ IsEv("be") /\ Ev.cls = "col_meta" /\ Ev.res = "precondition" /\ skew /\ up
  /\ pc \in {"ext_put", "fl_idx"}
  /\ pc' = IF pc = "ext_put" THEN "fail_ret" ELSE pc
  /\ UNCHANGED <<durable, volatile, cur, nextSeq, ackedIds>>

\* the delete that compensates a failed create (Ok, or nothing there)
TrAddComp ==
  /\ IsEv("be") /\ Ev.cls = "doc" /\ Ev.kind = "delete" /\ Ev.res \in {"ok", "notfound", "fault_landed"}
  /\ AddCompDelete /\ cur.id = Ev.id

\* a poisoned handle: it reports its state, refuses every call, and writes nothing (no backend event
\* is accepted while pc = "down")
TrDead ==
  /\ pc = "down"
  /\ \/ IsEv("obs") /\ Ev.state = "Poisoned"
     \/ IsEv("call") /\ Has("dead")
     \/ IsEv("ret") /\ Has("dead") /\ ~Ev.ok
  /\ UNCHANGED vars

TrDoc ==
  /\ IsBe("doc")
  /\ \/ (Ev.kind = "put" /\ Ev.mode = "create" /\ AddDocCreate /\ cur.id = Ev.id /\ cur.val = Ev.val)
     \/ (Ev.kind = "put" /\ Ev.mode = "update" /\ UpdDocPut /\ cur.id = Ev.id /\ cur.val = Ev.val)
     \/ (Ev.kind = "delete" /\ RemDocDelete /\ cur.id = Ev.id)

TrIntent ==
  /\ IsBe("intent")
  /\ \/ (Ev.kind = "put" /\ Ev.mode = "create" /\ IntentPut(Ev.seq)
           /\ Ev.id = cur.id /\ Ev.prev = cur.prev
           /\ Ev.post = (IF cur.op = "update" THEN cur.val ELSE NoDoc))
     \/ (Ev.kind = "delete" /\ IntentDelete(Ev.seq))

\* the metadata object: which of the two writers it is follows from the program counter;
\* the logged content must be exactly the in-memory metadata
TrColMeta ==
  /\ IsBe("col_meta") /\ Ev.kind = "put" /\ Ev.mode = "update"
  /\ \/ UnclaimedMetaPut
     \/ MetaCasPut
  /\ dMeta' = [maxId |-> Ev.maxid, idx |-> SeqToSet(Ev.idx), ext |-> Ev.ext]

TrColIds == IsBe("col_ids") /\ Ev.kind = "put" /\ Ev.mode = "update" /\ IdsPut /\ dIds' = SeqToSet(Ev.ids)

TrCp == IsBe("cp") /\ Ev.kind = "put" /\ CheckpointPut /\ dCP' = Ev.cp

TrIdxCommit == IsBe("idx_commit") /\ IndexCommit(Ev.idx)

TrIdxInit == IsBe("idx_init") /\ CbCreateIndex(Ev.idx)

\* bucket / node objects and obsolete-object deletions: no abstract effect, but only while an index
\* is being persisted or dropped
TrIdxObj ==
  /\ IsEv("be") /\ Ev.cls = "idx_obj"          \* whatever its outcome: no abstract effect
  /\ up
  /\ \/ pc \in {"fl_idx", "cmp"} /\ Ev.idx \in mIdxSet
     \/ pc = "open_cb"
  \* an HNSW node blob is only ever deleted for a node the index no longer holds (purge of removed nodes
  \* after a flush, sweep of orphaned blobs at bootstrap) - never the blob of a live node
  /\ (Ev.kind = "delete" /\ Has("node") /\ Ev.idx \in mIdxSet /\ Ev.res \in {"ok", "fault_landed"})
        => Ev.node \notin mIdx[Ev.idx].h
  /\ UNCHANGED vars

---------------------------------------------------------------------------
TrCrash ==
  /\ IsEv("crash")
  /\ IF pc = "down" THEN UNCHANGED vars ELSE Crash

TrCbBegin == IsEv("cb_begin") /\ pc = "open_cb" /\ UNCHANGED vars

\* the removal of an index inside the callback is recognised by its first backend event
TrCbRemove ==
  /\ IsBe("col_meta") /\ pc = "open_cb"
  /\ \E j \in cur.rm \cap mIdxSet :
       /\ MissingWanted(mIdxSet) = {} /\ CbMayProceed
       /\ j \notin SeqToSet(Ev.idx)
       \* CbRemoveIndex(j) and UnclaimedMetaPut as one step
       /\ mIdxSet' = mIdxSet \ {j}
       /\ mIdx' = [mIdx EXCEPT ![j] = EmptyIdx]
       /\ dirtyIdx' = dirtyIdx \ {j}
       /\ dirtyMeta' = TRUE
       /\ cur' = [cur EXCEPT !.rm = @ \ {j}]
       /\ dMeta' = [maxId |-> mMaxId, idx |-> mIdxSet \ {j}, ext |-> mExt]
       /\ dMeta' = [maxId |-> Ev.maxid, idx |-> SeqToSet(Ev.idx), ext |-> Ev.ext]
       /\ pc' = "open_cb"
       /\ UNCHANGED <<dDoc, dIds, dCP, dWM, dInt, dIdx, up, mIds, mMaxId, mExt, mWM, mPend, nextSeq, ackedIds>>

\* the callback returned: replay of the mutation intents and the repair scan happen in memory
TrCbEnd == IsEv("cb_end") /\ OpenReplay

---------------------------------------------------------------------------
(* observation: the full projected state read through public APIs          *)
ObsOk ==
  /\ Idle
  /\ Ev.state = "Active"
  /\ SeqToSet(Ev.ids) = mIds
  /\ Ev.len = Cardinality(mIds)
  /\ Ev.maxid = mMaxId
  /\ Ev.ext = mExt
  /\ {Ev.docs[j][1] : j \in 1..Len(Ev.docs)} = mIds
  /\ \A j \in 1..Len(Ev.docs) : dDoc[Ev.docs[j][1]] = Ev.docs[j][2]
  /\ \A i \in mIdxSet : i \in DOMAIN Ev.idx /\ PairSet(Ev.idx[i]) = Obs(i, mIdx[i])
  /\ \A i \in Index : i \in DOMAIN Ev.idx => i \in mIdxSet
  /\ ("v" \in mIdxSet => /\ Ev.idx.v_n = Cardinality(mIdx["v"].h)
                          /\ SeqToSet(Ev.vsearch) = mIdx["v"].h)

TrObs == IsEv("obs") /\ ObsOk /\ UNCHANGED vars

---------------------------------------------------------------------------
TraceInit ==
  /\ Init
  /\ l = 1 /\ flt = FALSE /\ skew = FALSE

FltStep ==
  /\ flt' = IF Ev.e = "be" /\ Ev.res \in {"fault", "fault_landed"} THEN TRUE
            ELSE IF Ev.e = "be" /\ Ev.res = "precondition" /\ skew THEN TRUE
            ELSE IF Ev.e \in {"call", "init"} THEN FALSE ELSE flt
  \* a new handle (reopen, reboot) reads the version again
  /\ skew' = IF Ev.e = "be" /\ Ev.cls = "col_meta" /\ Ev.res = "fault_landed" /\ pc = "ext_put" THEN TRUE
             ELSE IF Ev.e \in {"init", "crash"} \/ (Ev.e = "call" /\ Ev.op = "open") THEN FALSE ELSE skew

TraceNext ==
  /\ \/ TrReset \/ TrInit \/ TrCall \/ TrRet
     \/ TrWm \/ TrDoc \/ TrIntent \/ TrColMeta \/ TrColIds \/ TrCp
     \/ TrIdxCommit \/ TrIdxInit \/ TrIdxObj
     \/ TrFaultNoLand \/ TrFaultHealthy \/ TrExtFail \/ TrPrecond \/ TrAddComp \/ TrDead
     \/ TrCrash \/ TrCbBegin \/ TrCbRemove \/ TrCbEnd \/ TrObs
  /\ FltStep

TraceSpec == TraceInit /\ [][TraceNext]_tvars

\* acceptance: every line was consumed.  On rejection print where and what.
TraceAccepted ==
  LET d == TLCGet("stats").diameter IN
  IF d - 1 = Len(Rec) THEN TRUE
  ELSE /\ PrintT(<<"TRACE_REJECTED", d, ToJson(Rec[d])>>)
       /\ FALSE
=============================================================================
