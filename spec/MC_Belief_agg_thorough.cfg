CONSTANTS
  Family = "agg"
  N = 4
  Confs = {2, 5, 9}
SPECIFICATION Spec
INVARIANT Emit
CHECK_DEADLOCK FALSE
