CONSTANTS
  Key = {"a", "b"}
  Val = {1, 2}
  Proc = {1, 2}
  MaxGen = 3
  LegKeys = {"a", "b"}
  MaxCrash = 1
SPECIFICATION MCSpec
INVARIANT PointerValid
INVARIANT Immutable
CHECK_DEADLOCK FALSE
