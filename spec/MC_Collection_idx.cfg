CONSTANTS
  MaxId = 3
  Val = {1, 2, 3}
  Index = {"k", "a", "b"}
  Kind <- MCKind
  Terms <- MCTerms
  InitIdx = {"k", "b"}
  Wanted <- MCWantedA
  Stride = 1
  FlushOnCreate = TRUE
  MaxCrash = 2
  MaxFaults = 0
  MaxOps = 3
  OpKinds = {"add", "flush"}
  Removable = {"b"}
SPECIFICATION MCSpec
INVARIANT TypeOK
INVARIANT QuiescentExact
INVARIANT RecoverableExact
INVARIANT UniqueHolds
INVARIANT UniqueDocs
INVARIANT IdNotReused
INVARIANT WatermarkCovers
INVARIANT CheckpointCovers
CHECK_DEADLOCK FALSE
