CONSTANTS
  Keys = {"a", "b", "c"}
  Commits <- MCCommits
SPECIFICATION Spec
INVARIANT ReadOriginalOrFail
INVARIANT NonceUnique
CHECK_DEADLOCK FALSE
