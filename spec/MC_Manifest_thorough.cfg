CONSTANTS
  Keys = {"x", "y"}
  Ids = {1, 2}
  Buckets = {1, 2}
  MaxVersion = 6
  MaxCrash = 2
SPECIFICATION MCSpec
INVARIANT LoadIsCommitted
INVARIANT ReferencedExist
INVARIANT CleanBucketsDurable
INVARIANT NoDuplicateHomes
PROPERTY MutationsOK
VIEW MCView
CHECK_DEADLOCK FALSE
