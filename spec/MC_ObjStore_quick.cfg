CONSTANTS
  Keys = {"a", "a/b"}
  Vals = {1, 2}
  N = 3
  Tier = "quick"
  Family = "seq"
SPECIFICATION MCSpec
INVARIANT TokenFreshInv
INVARIANT StaleInv
INVARIANT Emit
CHECK_DEADLOCK FALSE
