----------------------------- MODULE MC_Sidecar -----------------------------
(* Exhaustive exploration of Sidecar.tla: writers, the collector and crashes *)
(* interleaved at inner-store-mutation grain.                                *)
EXTENDS Sidecar, TLC

CONSTANTS MaxCrash,
  LegKeys       \* keys that may start as legacy (pre-0.10) objects: pointer + data/<k>, or an orphan data/<k>
VARIABLES crashes
mvars == <<svars, crashes>>

\* the legacy payloads all hold the smallest value (the values are interchangeable)
LegVal == CHOOSE v \in Val : \A w \in Val : v <= w
MCInit ==
  /\ crashes = 0
  /\ \E P \in SUBSET LegKeys : \E O \in SUBSET (LegKeys \ P) :
        InitWith([k \in P |-> LegVal], [k \in O |-> LegVal])

Step(A) == A /\ UNCHANGED crashes

MCNext ==
  \/ \E p \in Proc, k \in Key, v \in Val : Step(PutMint(p, k, v))
  \/ \E p \in Proc : Step(WritePayload(p)) \/ Step(CopyPayload(p)) \/ Step(SwitchPointer(p))
                     \/ Step(ReclaimOld(p)) \/ Step(Finish(p)) \/ Step(DeletePayload(p)) \/ Step(DeleteDone(p))
  \/ \E p \in Proc, a \in Key, b \in Key : Step(CopyMint(p, a, b))
  \/ \E p \in Proc, k \in Key : Step(DeleteMeta(p, k))
  \/ Step(GcStart) \/ (\E k \in Key : Step(GcMark(k))) \/ Step(GcList)
  \/ (\E o \in gc.cands : Step(GcSkip(o)) \/ Step(GcDelete(o))) \/ Step(GcEnd)
  \/ (Crash /\ crashes < MaxCrash /\ crashes' = crashes + 1)

\* the per-key critical section: two writers never hold a payload for the same key at the same time
\* between "minted" and "switched" ... the section is entered at update_meta_with; model it as a
\* constraint on the exploration (the section is a moka per-key compute lock)
Section ==
  \A p, q \in Proc : p # q /\ pc[p].st \in {"payload"} /\ pc[q].st \in {"payload"} => pc[p].k # pc[q].k

MCSpec == MCInit /\ [][MCNext]_mvars
=============================================================================
