CONSTANTS
  Keys = {"a", "a/b", "a/b/c", "ab"}
  Vals = {1, 2}
  N = 3
  Parts <- MCParts
  Rank <- MCRank
SPECIFICATION MCSpec
VIEW View
INVARIANT TokenFreshInv
INVARIANT Emit
CHECK_DEADLOCK FALSE
