CONSTANTS
  Key <- TrKey
  Val = {1, 2, 3}
  Proc <- TrProc
  MaxGen = 1000
SPECIFICATION TraceSpec
INVARIANT PointerValid
INVARIANT Immutable
POSTCONDITION TraceAccepted
CHECK_DEADLOCK FALSE
