----------------------------- MODULE MC_ObjStore -----------------------------
(* Family "seq":  ALL call sequences of length N of ObjStore.tla over a small   *)
(*   key space, with the expected result of every call.                         *)
(* Family "conc": every state reachable by a prefix of length N-2 ... then every *)
(*   PAIR of calls issued concurrently: the results allowed are those of the two *)
(*   sequential orders (linearizability).                                        *)
EXTENDS ObjStore, TLC, Json

CONSTANTS N, Tier, Family

VARIABLES s, hist      \* state and sequence of [call, res]
vars == <<s, hist>>

Modes == {"create", "overwrite"}
Refs == IF Tier = "quick" THEN {Cur, Stale, Other} ELSE {Cur, Stale, Other, Bogus}
Conds == {"none", "if_match", "if_none_match", "if_match_star", "if_none_match_star"}

Distinct == {q \in Keys \X Keys : q[1] # q[2]}

Calls ==
       {<<"put", k, v, m, NoRef>> : k \in Keys, v \in Vals, m \in Modes}
  \cup {<<"put", k, v, "update", ref>> : k \in Keys, v \in Vals, ref \in Refs}
  \cup {<<h, k, c, Cur>> : h \in {"get", "head"}, k \in Keys, c \in {"none", "if_match_star", "if_none_match_star"}}
  \cup {<<h, k, c, ref>> : h \in {"get", "head"}, k \in Keys, c \in {"if_match", "if_none_match"}, ref \in Refs}
  \cup {<<"delete", k>> : k \in Keys}
  \cup {<<"mput", k, 2>> : k \in Keys} \cup {<<"mabort", k>> : k \in Keys}
  \cup {<<"copy", q[1], q[2], m>> : q \in Distinct, m \in Modes}
  \cup {<<"rename", a, b, m>> : a \in Keys, b \in Keys, m \in Modes}

\* calls worth racing against each other
ConcCalls ==
       {<<"put", k, v, m, NoRef>> : k \in Keys, v \in {2}, m \in Modes}
  \cup {<<"put", k, 2, "update", Cur>> : k \in Keys}
  \cup {<<h, k, c, Cur>> : h \in {"get", "head"}, k \in Keys, c \in {"none", "if_match", "if_none_match"}}
  \cup {<<"delete", k>> : k \in Keys}
  \cup {<<"mput", k, 1>> : k \in Keys}
  \cup {<<"copy", q[1], q[2], "overwrite">> : q \in Distinct}
  \cup {<<"rename", q[1], q[2], "overwrite">> : q \in Distinct}

MCInit == s = S0 /\ hist = <<>>

MCNext ==
  /\ Len(hist) < N
  /\ \E c \in Calls :
       /\ Issuable(s, c)
       /\ s' = Do(s, c).s
       /\ hist' = Append(hist, [call |-> c, res |-> Do(s, c).res])

MCSpec == MCInit /\ [][MCNext]_vars

TokenFreshInv == TokenFresh(s)
StaleInv == StaleIsStale(s)

Done == Len(hist) = N

\* the two sequential explanations of a concurrent pair
\* rename is documented as copy + delete of the source (the reference implements it that way too),
\* so a concurrent call may also take effect BETWEEN the two
Split(c) == IF c[1] = "rename" /\ c[2] # c[3] THEN << <<"copy", c[2], c[3], c[4]>>, <<"delete", c[2]>> >> ELSE <<c>>

Orders(a0, b0) ==
  LET a == Concretize(s, a0) b == Concretize(s, b0)      \* both callers captured their tokens at the fork
      ab1 == Do(s, a) ab2 == Do(ab1.s, b)
      ba1 == Do(s, b) ba2 == Do(ba1.s, a)
      base == << [ra |-> ab1.res, rb |-> ab2.res, listing |-> Listing(ab2.s)],
                 [ra |-> ba2.res, rb |-> ba1.res, listing |-> Listing(ba2.s)] >>
      \* x = the rename, y = the other call, in between
      Mid(x, y) == LET p == Split(x)
                       s1 == Do(s, p[1]) s2 == Do(s1.s, y)
                       s3 == IF s1.res.r = "ok" THEN Do(s2.s, p[2]) ELSE [s |-> s2.s, res |-> s1.res]
                   IN [rx |-> s1.res, ry |-> s2.res, listing |-> Listing(s3.s)]
      \* a copy (and the copy half of a rename) READS its source and COMMITS its target at two different
      \* moments - in the wrappers and in the reference store alike (object_store::memory::InMemory takes
      \* its lock twice) - so the other call may take effect in between: x commits the value it read
      \* BEFORE y, into the state AFTER y (two crossing copies can swap two keys).  Each key's own history
      \* stays linearizable, which is what C07 asks for ("concurrent callers per key").
      IsCopy(x) == x[1] \in {"copy", "rename"} /\ x[2] # x[3]
      MidRead(x, y) ==
        LET present == Exists(s, x[2])
            v  == s.obj[x[2]].val
            s2 == Do(s, y)
            w  == IF ~present THEN [s |-> s2.s, res |-> R("notfound", 0, 0)]
                  ELSE IF x[4] = "create" /\ Exists(s2.s, x[3]) THEN [s |-> s2.s, res |-> R("exists", 0, 0)]
                  ELSE [s |-> Commit(s2.s, x[3], v), res |-> R("ok", 0, s2.s.nextTok)]
            s3 == IF x[1] = "rename" /\ w.res.r = "ok" THEN Remove(w.s, x[2]) ELSE w.s
        IN [rx |-> w.res, ry |-> s2.res, listing |-> Listing(s3)]
  IN base
     \o (IF Len(Split(a)) = 2 THEN LET m == Mid(a, b) IN <<[ra |-> m.rx, rb |-> m.ry, listing |-> m.listing]>> ELSE <<>>)
     \o (IF Len(Split(b)) = 2 THEN LET m == Mid(b, a) IN <<[ra |-> m.ry, rb |-> m.rx, listing |-> m.listing]>> ELSE <<>>)
     \o (IF IsCopy(a) THEN LET m == MidRead(a, b) IN <<[ra |-> m.rx, rb |-> m.ry, listing |-> m.listing]>> ELSE <<>>)
     \o (IF IsCopy(b) THEN LET m == MidRead(b, a) IN <<[ra |-> m.ry, rb |-> m.rx, listing |-> m.listing]>> ELSE <<>>)

Emit ==
  Done =>
    IF Family = "seq"
    THEN PrintT(<<"REPLAY", ToJson([calls |-> hist, listing |-> Listing(s)])>>)
    ELSE \A a \in ConcCalls, b \in ConcCalls :
           (Issuable(s, a) /\ Issuable(s, b) /\ a[2] = b[IF b[1] \in {"copy", "rename"} THEN 3 ELSE 2]) =>
             PrintT(<<"REPLAY", ToJson([prefix |-> hist, a |-> a, b |-> b, orders |-> Orders(a, b)])>>)
=============================================================================
