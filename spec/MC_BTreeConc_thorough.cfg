CONSTANTS
  Keys = {1, 2}
  Ids = {1, 2}
  Threads = {1, 2}
  MaxB = 2
  Uniq = FALSE
  ProgLen = 2
  Tier = "thorough"
SPECIFICATION MCSpec
INVARIANT OwnerLists
INVARIANT BtreeMatches
INVARIANT DirtyCovers
INVARIANT FlushExact
INVARIANT UniqueHolds
CHECK_DEADLOCK FALSE
