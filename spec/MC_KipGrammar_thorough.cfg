CONSTANT Tier = "thorough"
SPECIFICATION Spec
INVARIANT Laws
INVARIANT Emit
CHECK_DEADLOCK FALSE
