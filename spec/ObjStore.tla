------------------------------ MODULE ObjStore ------------------------------
(***************************************************************************)
(* Reference semantics of an object store as anda-db uses it (C07):        *)
(* put in all modes with real compare-and-swap on an opaque per-commit     *)
(* token, get / head with preconditions, delete, copy and rename in both   *)
(* target modes, listing.  MetaStore and EncryptedStore must return what   *)
(* this module returns for every call sequence, and for concurrent calls   *)
(* what it returns for SOME order of them; object_store::memory::InMemory  *)
(* is replayed too, which validates the module itself.                     *)
(*                                                                         *)
(* A token is a natural number, fresh for EVERY commit (put, copy, rename  *)
(* target), whatever the bytes (TokenFresh).                               *)
(*                                                                         *)
(* The semantics is a FUNCTION  Do(s, c) = [s |-> next state, res |-> r]   *)
(* of a state s = [obj, nextTok, stale] and a call c (a tuple):            *)
(*   <<"put", k, v, mode, ref>>      mode: create | overwrite | update     *)
(*   <<"get" | "head", k, cond, ref>>                                      *)
(*   <<"delete", k>>   <<"copy" | "rename", a, b, mode>>                   *)
(*   <<"mput", k, v>>   a completed multipart upload: an overwrite commit  *)
(*   <<"mabort", k>>    an aborted multipart upload: nothing happened      *)
(* A token reference ref is resolved against the state BEFORE the call:    *)
(*   Cur = current token of the key, Stale = a replaced token of the key,  *)
(*   Other = current token of another key, Bogus = never issued.           *)
(***************************************************************************)
EXTENDS Integers, Sequences, FiniteSets

CONSTANTS Keys, Vals

None == [val |-> 0, tok |-> 0]        \* absent
S0 == [obj |-> [k \in Keys |-> None], nextTok |-> 1, stale |-> [k \in Keys |-> 0]]

Exists(s, k) == s.obj[k].tok # 0

\* token references are integers: a positive number is an explicit token (captured earlier)
Cur == -1  Stale == -2  Other == -3  Bogus == -4  NoRef == 0
Resolve(s, ref, k) ==
  CASE ref > 0     -> ref
    [] ref = Cur   -> s.obj[k].tok
    [] ref = Stale -> s.stale[k]
    [] ref = Other -> LET o == CHOOSE x \in Keys : x # k IN s.obj[o].tok
    [] ref = Bogus -> 999
    [] OTHER -> 0
RefUsable(s, ref, k) == Resolve(s, ref, k) # 0       \* the driver can only send tokens that exist

R(class, val, tok) == [r |-> class, val |-> val, tok |-> tok]

Commit(s, k, v) ==
  [obj |-> [s.obj EXCEPT ![k] = [val |-> v, tok |-> s.nextTok]],
   stale |-> [s.stale EXCEPT ![k] = IF Exists(s, k) THEN s.obj[k].tok ELSE @],
   nextTok |-> s.nextTok + 1]

Remove(s, k) ==
  [obj |-> [s.obj EXCEPT ![k] = None],
   stale |-> [s.stale EXCEPT ![k] = IF Exists(s, k) THEN s.obj[k].tok ELSE @],
   nextTok |-> s.nextTok]

PutClass(s, k, mode, ref) ==
  CASE mode = "create" /\ Exists(s, k) -> "exists"
    [] mode = "update" /\ (~Exists(s, k) \/ Resolve(s, ref, k) # s.obj[k].tok) -> "precondition"
    [] OTHER -> "ok"

GetClass(s, k, cond, ref) ==
  IF ~Exists(s, k) THEN "notfound"
  ELSE CASE cond = "if_match" /\ Resolve(s, ref, k) # s.obj[k].tok -> "precondition"
         [] cond = "if_none_match" /\ Resolve(s, ref, k) = s.obj[k].tok -> "notmodified"
         [] cond = "if_none_match_star" -> "notmodified"
         [] OTHER -> "ok"

CopyClass(s, a, b, mode) ==
  IF ~Exists(s, a) THEN "notfound"
  ELSE IF mode = "create" /\ Exists(s, b) THEN "exists" ELSE "ok"

Do(s, c) ==
  CASE c[1] = "put" ->
         LET cl == PutClass(s, c[2], c[4], c[5]) IN
         IF cl = "ok" THEN [s |-> Commit(s, c[2], c[3]), res |-> R("ok", 0, s.nextTok)]
         ELSE [s |-> s, res |-> R(cl, 0, 0)]
    [] c[1] \in {"get", "head"} ->
         LET cl == GetClass(s, c[2], c[3], c[4]) IN
         [s |-> s, res |-> IF cl = "ok" THEN R("ok", s.obj[c[2]].val, s.obj[c[2]].tok) ELSE R(cl, 0, 0)]
    [] c[1] = "delete" ->
         \* the reference store reports nothing for a missing key ("absent")
         [s |-> Remove(s, c[2]), res |-> R(IF Exists(s, c[2]) THEN "ok" ELSE "absent", 0, 0)]
    [] c[1] = "mput"   -> [s |-> Commit(s, c[2], c[3]), res |-> R("ok", 0, s.nextTok)]
    [] c[1] = "mabort" -> [s |-> s, res |-> R("ok", 0, 0)]
    [] c[1] = "copy" ->
         LET cl == CopyClass(s, c[2], c[3], c[4]) IN
         IF cl = "ok" THEN [s |-> Commit(s, c[3], s.obj[c[2]].val), res |-> R("ok", 0, s.nextTok)]
         ELSE [s |-> s, res |-> R(cl, 0, 0)]
    [] c[1] = "rename" ->
         LET cl == CopyClass(s, c[2], c[3], c[4]) IN
         IF cl = "ok" /\ c[2] # c[3]
         THEN [s |-> Remove(Commit(s, c[3], s.obj[c[2]].val), c[2]), res |-> R("ok", 0, s.nextTok)]
         ELSE [s |-> s, res |-> R(cl, 0, 0)]      \* a self-rename leaves the object untouched

\* can the driver issue this call in this state (the tokens it refers to exist)?
Issuable(s, c) ==
  CASE c[1] = "put" -> (c[4] = "update" => RefUsable(s, c[5], c[2]))
    [] c[1] \in {"get", "head"} -> (c[3] \in {"if_match", "if_none_match"} => RefUsable(s, c[4], c[2]))
    [] OTHER -> TRUE

\* the call with its token reference replaced by the token it denotes in state s (what a caller
\* that captured the token at that moment sends later)
Concretize(s, c) ==
  CASE c[1] = "put" /\ c[4] = "update" -> <<c[1], c[2], c[3], c[4], Resolve(s, c[5], c[2])>>
    [] c[1] \in {"get", "head"} /\ c[3] \in {"if_match", "if_none_match"} -> <<c[1], c[2], c[3], Resolve(s, c[4], c[2])>>
    [] OTHER -> c

Listing(s) == {<<k, s.obj[k].val, s.obj[k].tok>> : k \in {x \in Keys : Exists(s, x)}}

(* C07 as invariants of the reference itself *)
TokenFresh(s) == \A a, b \in Keys : a # b /\ Exists(s, a) /\ Exists(s, b) => s.obj[a].tok # s.obj[b].tok
StaleIsStale(s) == \A k \in Keys : s.stale[k] # 0 => s.stale[k] # s.obj[k].tok /\ s.stale[k] < s.nextTok
=============================================================================
