CONSTANTS
  Elem <- TrElem
  MaxVer <- TrMaxVer
  MaxSeq = 100000
SPECIFICATION TraceSpec
INVARIANT NoPendingShell
INVARIANT VersionLogComplete
INVARIANT JournalBelowSeq
INVARIANT TupleUnique
INVARIANT KeyUnique
POSTCONDITION TraceAccepted
CHECK_DEADLOCK FALSE
