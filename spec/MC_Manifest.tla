----------------------------- MODULE MC_Manifest -----------------------------
EXTENDS Manifest, TLC
CONSTANTS MaxCrash
VARIABLES crashes
MCInit == Init /\ crashes = 0
S(A) == A /\ UNCHANGED crashes
MCNext ==
  \/ \E k \in Keys, id \in Ids : S(Insert(k, id)) \/ S(Remove(k, id))
  \/ \E k \in Keys, b \in Buckets : S(Migrate(k, b))
  \/ \E h \in [Keys -> Buckets] : S(Compact(h))
  \/ S(FlushSnapshot) \/ (\E b \in Buckets : S(WriteBucket(b))) \/ S(CommitManifest) \/ S(Publish)
  \/ (\E o \in Buckets \X Gens : S(DeleteObsolete(o))) \/ S(FlushEnd) \/ S(FlushFail)
  \/ (Crash /\ crashes < MaxCrash /\ crashes' = crashes + 1)
MCSpec == MCInit /\ [][MCNext]_<<mvars, crashes>>
=============================================================================
