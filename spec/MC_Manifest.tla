----------------------------- MODULE MC_Manifest -----------------------------
EXTENDS Manifest, TLC
CONSTANTS MaxCrash
VARIABLES crashes
MCInit == Init /\ crashes = 0
S(A) == A /\ UNCHANGED crashes
MCNext ==
  \/ \E k \in Keys, id \in Ids : S(Insert(k, id)) \/ S(Remove(k, id))
  \/ \E k \in Keys, b \in Buckets : S(Migrate(k, b))
  \/ \E h \in [Keys -> Buckets] : S(Compact(h))
  \/ (\E d \in SUBSET Buckets : S(FlushSnapshot(d))) \/ (\E b \in Buckets : S(WriteBucket(b))) \/ S(CommitManifest) \/ S(Publish)
  \/ (\E o \in Buckets \X Gens : S(DeleteObsolete(o))) \/ S(FlushEnd) \/ S(FlushFail)
  \/ (Crash /\ crashes < MaxCrash /\ crashes' = crashes + 1)
\* unreferenced objects (garbage of failed / interrupted flushes, undeleted obsolete ones) can only be
\* overwritten or deleted before anything reads them: states differing only there are bisimilar
Relevant(p) == dMan[p[1]] = p[2] \/ mMan[p[1]] = p[2] \/ (fl.st # "idle" /\ p[2] = fl.gen)
MCView == <<post, home, dirty, version, mMan, [p \in DOMAIN obj |-> IF Relevant(p) THEN obj[p] ELSE Absent],
            dMan, fl, saved, dVer, committed, crashes>>
MCSpec == MCInit /\ [][MCNext]_<<mvars, crashes>>
Mutation ==
  \/ \E k \in Keys, id \in Ids : Insert(k, id) \/ Remove(k, id)
  \/ \E k \in Keys, b \in Buckets : Migrate(k, b)
  \/ \E h \in [Keys -> Buckets] : Compact(h)
\* refinement lemma: every design-level mutation satisfies the relation the trace specs check
MutationsOK == [][Mutation => MutationOK]_<<mvars, crashes>>
=============================================================================
