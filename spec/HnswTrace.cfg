CONSTANTS
  Ids <- TrIds
  MaxTag <- TrMaxTag
SPECIFICATION TraceSpec
INVARIANT Provenance
INVARIANT CommitExact
INVARIANT DurableExact
POSTCONDITION TraceAccepted
CHECK_DEADLOCK FALSE
