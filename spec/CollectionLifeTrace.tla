------------------------ MODULE CollectionLifeTrace ------------------------
(***************************************************************************)
(* C06: lifecycle of collection handles, on top of CollectionTrace.        *)
(*                                                                         *)
(*  - a handle that is read-only (itself or through its database), closed, *)
(*    deleted or poisoned is SILENT: between a "qcall" and its "qret" line *)
(*    no backend mutation may appear (no action below consumes a "be" line *)
(*    while q is set), and the call must be refused;                       *)
(*  - a closed / deleted / poisoned handle stays retired for ever          *)
(*    (set_read_only(false) cannot revive it);                             *)
(*  - dropping a mutating call after k polls ("drop") is a crash of the    *)
(*    handle: Collection!Crash, the handle reports Poisoned, and the       *)
(*    reopen that follows is validated like any crash recovery (C01/C02    *)
(*    invariants at every step);                                           *)
(*  - delete_collection only deletes, and afterwards nothing is listed     *)
(*    under the prefix - also not after further calls on retained handles. *)
(***************************************************************************)
EXTENDS CollectionTrace

VARIABLES
  ro,       \* [col, db] read-only flags of the retained handle / its database
  retired,  \* "" while the retained handle is live, else the state it must report
  q         \* the quiet call in progress ("" = none)

lvars == <<ro, retired, q>>
ltvars == <<tvars, lvars>>

NoRo == [col |-> FALSE, db |-> FALSE]
Blocked == retired # "" \/ ro.col \/ ro.db

\* every line CollectionTrace understands, unless a quiet call is open or the handle is read-only
Base ==
  /\ q = ""
  /\ l <= Len(Rec)
  /\ (Ev.e = "call" => Ev.op = "open" \/ ~(ro.col \/ ro.db))
  /\ TraceNext
  /\ retired' = (IF Ev.e = "init" THEN ""
                 ELSE IF Ev.e = "ret" /\ Ev.op = "close" /\ Ev.ok THEN "Closed"
                 ELSE retired)
  /\ ro' = (IF Ev.e = "init" THEN NoRo ELSE ro)
  /\ UNCHANGED q

TrRo ==
  /\ IsEv("ro") /\ q = ""
  /\ ro' = CASE Ev.scope = "db" /\ Ev.on  -> [col |-> TRUE, db |-> TRUE]
             [] Ev.scope = "db" /\ ~Ev.on -> [col |-> IF retired # "" THEN ro.col ELSE FALSE, db |-> FALSE]
             [] Ev.scope = "col" /\ Ev.on -> [ro EXCEPT !.col = TRUE]
             [] Ev.scope = "col" /\ ~Ev.on -> IF retired # "" \/ ro.db THEN ro ELSE [ro EXCEPT !.col = FALSE]
  /\ UNCHANGED <<vars, retired, q>>

\* a call on a handle that must be silent
TrQCall ==
  /\ IsEv("qcall") /\ q = ""
  /\ Blocked
  /\ pc \in {"idle", "down", "gone", "deleting"}
  /\ q' = Ev.op
  /\ UNCHANGED <<vars, ro, retired>>

TrQRet ==
  /\ IsEv("qret") /\ q # "" /\ Ev.op = q
  /\ \/ ~Ev.ok
     \/ (Ev.op = "close" /\ retired \in {"Closed", "Deleted"})     \* closing again is an idempotent no-op
  /\ q' = ""
  /\ UNCHANGED <<vars, ro, retired>>

\* cancellation = crash of the handle
TrDrop ==
  /\ IsEv("drop") /\ q = ""
  /\ pc \notin {"idle", "down", "gone", "deleting"}
  /\ Crash
  /\ retired' = "Poisoned"
  /\ UNCHANGED <<ro, q>>

\* a cancelled delete_collection: the handle (and the name) stay tombstoned - "Deleting" - whatever part
\* of the prefix was already deleted; only a retry of the deletion goes on from there
TrDropDelete ==
  /\ IsEv("drop") /\ q = ""
  /\ pc = "deleting"
  /\ retired' = "Deleting"
  /\ cur' = NoCur                       \* no deletion is in progress any more: nothing may be deleted
  /\ UNCHANGED <<durable, volatile, pc, nextSeq, ackedIds, ro, q>>

TrState ==
  /\ IsEv("state") /\ q = ""
  /\ Ev.v = retired
  /\ UNCHANGED <<vars, lvars>>

\* reconcile_storage on a consistent live handle: exclusive, finds nothing to do, writes nothing
TrRecCall ==
  /\ IsEv("call") /\ Ev.op = "reconcile" /\ q = "" /\ ~Blocked
  /\ Idle
  /\ pc' = "rec" /\ cur' = [op |-> "reconcile"]
  /\ UNCHANGED <<durable, volatile, nextSeq, ackedIds, lvars>>

TrRecRet ==
  /\ IsEv("ret") /\ Ev.op = "reconcile" /\ pc = "rec"
  /\ Ev.ok /\ Ev.recovered = 0 /\ Ev.dropped = 0
  /\ pc' = "idle" /\ cur' = NoCur
  /\ UNCHANGED <<durable, volatile, nextSeq, ackedIds, lvars>>

\* delete_collection: only deletions under the prefix, then nothing is left
TrDeleteCall ==
  /\ IsEv("call") /\ Ev.op = "delete" /\ q = ""
  /\ Idle \/ (pc = "deleting" /\ retired = "Deleting")        \* the first call, or the retry of a cancelled one
  /\ pc' = "deleting" /\ cur' = [op |-> "delete"]
  /\ UNCHANGED <<durable, volatile, nextSeq, ackedIds, lvars>>

TrDeleteBe ==
  /\ IsEv("be") /\ pc = "deleting" /\ cur.op = "delete" /\ q = ""
  /\ Ev.kind = "delete"
  /\ UNCHANGED <<vars, lvars>>

TrDeleteRet ==
  /\ IsEv("ret") /\ Ev.op = "delete" /\ Ev.ok /\ pc = "deleting" /\ cur.op = "delete"
  /\ dDoc' = [id \in Id |-> NoDoc]
  /\ dMeta' = [maxId |-> 0, idx |-> {}, ext |-> 0]
  /\ dIds' = {} /\ dCP' = 0 /\ dWM' = 0 /\ dInt' = {}
  /\ dIdx' = [i \in Index |-> EmptyIdx]
  /\ up' = FALSE
  /\ mIds' = {} /\ mIdx' = [i \in Index |-> EmptyIdx] /\ mMaxId' = 0 /\ mIdxSet' = {}
  /\ mExt' = 0 /\ mWM' = 0 /\ mPend' = {} /\ dirtyMeta' = FALSE /\ dirtyIdx' = {}
  /\ pc' = "gone" /\ cur' = NoCur
  /\ ackedIds' = {}
  /\ UNCHANGED nextSeq
  /\ retired' = "Deleted"
  /\ UNCHANGED <<ro, q>>

TrListing ==
  /\ IsEv("listing") /\ q = ""
  /\ pc = "gone" /\ Ev.n = 0
  /\ UNCHANGED <<vars, lvars>>

LifeInit == TraceInit /\ ro = NoRo /\ retired = "" /\ q = ""

LifeNext ==
  \/ Base
  \/ ((TrRo \/ TrQCall \/ TrQRet \/ TrDrop \/ TrDropDelete \/ TrState \/ TrRecCall \/ TrRecRet
        \/ TrDeleteCall \/ TrDeleteBe \/ TrDeleteRet \/ TrListing) /\ UNCHANGED <<flt, skew>>)

LifeSpec == LifeInit /\ [][LifeNext]_ltvars

\* retired handles are retired for ever (action property)
RetiredForEver == [][retired # "" /\ l <= Len(Rec) /\ Rec[l].e # "init" =>
                         retired' = retired \/ (retired = "Deleting" /\ retired' = "Deleted")]_ltvars
=============================================================================
