----------------------------- MODULE MC_BTreeQ -----------------------------
(***************************************************************************)
(* Direction R for the query side of C10: every population x every range   *)
(* query of the bounded families (depth <= 3), both scan directions, every *)
(* early-stop position; every prefix; every (cursor, limit) of keys().     *)
(* One REPLAY line per case; harness/src/bin/drive_btree.rs `query`        *)
(* rebuilds the population in a real BTreeIndex (live, compacted, and      *)
(* flushed + reloaded) and compares.                                       *)
(***************************************************************************)
EXTENDS MC_Filter, BTree

IdsOf(k) == {((2 * k) % 4) + 1, ((k + 3) % 4) + 1}          \* two ids per key, not correlated with key order
PopOf(P) == [k \in Key |-> IF k \in P THEN IdsOf(k) ELSE {}]
BPops == SetToSeq({PopOf(P) : P \in SUBSET Key})

\* key table of the harness: 0 "a", 1 "ab", 2 "abc", 3 "b", 4 "ba"; prefixes "", a, ab, abc, abcd, b, c, ac
PrefixKeys == << {0, 1, 2, 3, 4}, {0, 1, 2}, {1, 2}, {2}, {}, {3, 4}, {}, {} >>

RQSeq == S(AtomFull) \o S(RQ1Small) \o S(RQ2) \o (IF Tier = "quick" THEN <<>> ELSE S(RQ3))
NQ == Len(RQSeq)
NExtra == Len(PrefixKeys) + 1        \* prefix cases + one keys() case per population

BInit == pi \in 1..Len(BPops) /\ chunk \in 0..(NChunks - 1) /\ fi = 0
BNext == /\ fi = 0
         /\ fi' \in {i \in 1..(NQ + NExtra) : i % NChunks = chunk}
         /\ UNCHANGED <<pi, chunk>>
BSpec == BInit /\ [][BNext]_vars

m == BPops[pi]
PopJson == [j \in 1..5 |-> SetToSeq(m[j - 1])]

BCase ==
  IF fi <= NQ THEN
    LET q == RQSeq[fi] n == Len(Matching(m, q)) IN
    [kind |-> "range", pop |-> PopJson, q |-> q,
     fwd |-> [s \in 1..(n + 1) |-> ScanFwd(m, q, s)],
     rev |-> [s \in 1..(n + 1) |-> ScanRev(m, q, s)]]
  ELSE IF fi <= NQ + Len(PrefixKeys) THEN
    LET p == fi - NQ n == Cardinality(Present(m) \cap PrefixKeys[p]) IN
    [kind |-> "prefix", pop |-> PopJson, p |-> p,
     fwd |-> [s \in 1..(n + 1) |-> PrefixScan(m, PrefixKeys[p], s)]]
  ELSE
    [kind |-> "keysall", pop |-> PopJson,
     pages |-> SetToSeq({<<c, lim, KeysPage(m, c, lim)>> : c \in -1..4, lim \in -1..3})]

BLaws == (fi > 0 /\ fi <= NQ) => ScanLaws(m, RQSeq[fi])
BEmit == fi > 0 => PrintT(<<"REPLAY", ToJson(BCase)>>)
=============================================================================
