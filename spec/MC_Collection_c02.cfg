CONSTANTS
  MaxId = 3
  Val = {1, 2, 3}
  Index = {"k", "t", "v", "a"}
  Kind <- MCKind
  Terms <- MCTerms
  InitIdx = {"k"}
  Wanted <- MCWantedB
  Stride = 1
  FlushOnCreate = TRUE
  MaxCrash = 1
  MaxFaults = 0
  MaxOps = 4
  OpKinds = {"add", "update", "remove", "flush", "compact", "close"}
  Removable = {}
SPECIFICATION MCSpec
INVARIANT TypeOK
INVARIANT QuiescentExact
INVARIANT RecoverableExact
INVARIANT UniqueHolds
INVARIANT UniqueDocs
INVARIANT IdNotReused
INVARIANT WatermarkCovers
INVARIANT CheckpointCovers
CHECK_DEADLOCK FALSE
