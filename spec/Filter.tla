------------------------------- MODULE Filter -------------------------------
(***************************************************************************)
(* Reference semantics of anda-db filters (C03) and of B-tree range        *)
(* queries seen as predicates over keys (C10a).                            *)
(*                                                                         *)
(* A population maps every id ever allocated to a record                   *)
(*   [live : BOOLEAN, a : SUBSET Key, b : SUBSET Key, rank : Nat]          *)
(* `a` is a scalar optional field (0 or 1 key), `b` an array field (any    *)
(* number of keys, duplicates collapse), `rank` is the relevance position  *)
(* of the document in a search (1 = most relevant).  The pseudo field      *)
(* "_id" has exactly the key id.                                           *)
(*                                                                         *)
(* Range queries and filters are tagged tuples so that ToJson prints them  *)
(* as arrays the harness can rebuild:                                      *)
(*   <<"eq",k>> <<"gt",k>> <<"ge",k>> <<"lt",k>> <<"le",k>>                *)
(*   <<"between",lo,hi>>  <<"include",<<k1,..>>>>                          *)
(*   <<"and",<<q1,..>>>>  <<"or",<<q1,..>>>>  <<"not",q>>                  *)
(*   <<"field",name,q>>   (filter level; and/or/not as above)              *)
(***************************************************************************)
EXTENDS Naturals, Integers, Sequences, FiniteSets, SequencesExt, FiniteSetsExt

MaxSearchLimit == 1000      \* Collection::MAX_SEARCH_LIMIT
DefaultSearchLimit == 10    \* Query::limit default in search_ids
NoLimit == -1               \* encodes Option::None

---------------------------------------------------------------------------
(* Key predicates: RangeQuery as a predicate over one key.                 *)
RECURSIVE KeyPred(_, _)
KeyPred(q, k) ==
  CASE q[1] = "eq"      -> k = q[2]
    [] q[1] = "gt"      -> k > q[2]
    [] q[1] = "ge"      -> k >= q[2]
    [] q[1] = "lt"      -> k < q[2]
    [] q[1] = "le"      -> k <= q[2]
    [] q[1] = "between" -> q[2] <= k /\ k <= q[3]      \* inverted => empty
    [] q[1] = "include" -> \E i \in 1..Len(q[2]) : q[2][i] = k
    [] q[1] = "and"     -> \A i \in 1..Len(q[2]) : KeyPred(q[2][i], k)
    [] q[1] = "or"      -> \E i \in 1..Len(q[2]) : KeyPred(q[2][i], k)
    [] q[1] = "not"     -> ~KeyPred(q[2], k)

(* An ordered multimap  key -> set of ids  answers a range query with the  *)
(* union of the id sets of the keys satisfying the predicate.              *)
KeysOf(pop, id, f) == IF f = "_id" THEN {id} ELSE pop[id][f]
Live(pop) == {id \in DOMAIN pop : pop[id].live}

FieldMatch(pop, f, q) ==
  {id \in Live(pop) : \E k \in KeysOf(pop, id, f) : KeyPred(q, k)}

---------------------------------------------------------------------------
(* Filter = set algebra over the live documents.                           *)
RECURSIVE Sem(_, _)
Sem(flt, pop) ==
  CASE flt[1] = "field" -> FieldMatch(pop, flt[2], flt[3])
    [] flt[1] = "and"   -> {id \in Live(pop) : \A i \in 1..Len(flt[2]) : id \in Sem(flt[2][i], pop)}
    [] flt[1] = "or"    -> UNION {Sem(flt[2][i], pop) : i \in 1..Len(flt[2])}
    [] flt[1] = "not"   -> Live(pop) \ Sem(flt[2], pop)

Asc(S) == SetToSortSeq(S, <)

Take(s, n) == SubSeq(s, 1, IF n < Len(s) THEN n ELSE Len(s))
TakeLast(s, n) == SubSeq(s, (IF n < Len(s) THEN Len(s) - n ELSE 0) + 1, Len(s))

(* query_ids / query_last_ids: the first / last `limit` of the ascending   *)
(* full result; None = MaxSearchLimit; 0 = nothing.                        *)
EffLimit(limit) == IF limit = NoLimit \/ limit > MaxSearchLimit THEN MaxSearchLimit ELSE limit
PageFirst(full, limit) == Take(full, EffLimit(limit))
PageLast(full, limit)  == TakeLast(full, EffLimit(limit))

(* search_ids: each search index is asked for top_k = min(10 * limit, 4096) candidates, the ranked   *)
(* lists are merged by reciprocal rank fusion (score = sum over lists of 1/(60 + position),          *)
(* ties by ascending id), and a filter RESTRICTS that candidate list to its match set; the head is   *)
(* kept.  rank / trank are the positions of a document in the vector / text ranking (trank 0 = the   *)
(* document has no text).                                                                             *)
EffSearchLimit(limit) ==
  IF limit = NoLimit THEN DefaultSearchLimit
  ELSE IF limit > MaxSearchLimit THEN MaxSearchLimit ELSE limit
TopK(limit) == LET k == 10 * EffSearchLimit(limit) IN IF k > 4096 THEN 4096 ELSE k
VecOrder(pop) == SetToSortSeq(Live(pop), LAMBDA x, y : pop[x].rank < pop[y].rank)
TxtOrder(pop) == SetToSortSeq({id \in Live(pop) : pop[id].trank > 0}, LAMBDA x, y : pop[x].trank < pop[y].trank)
Candidates(pop) == VecOrder(pop)

PosIn(s, id) == CHOOSE j \in 1..Len(s) : s[j] = id
InSeq(s, id) == \E j \in 1..Len(s) : s[j] = id
\* RRF score of id over two lists as an exact fraction <<num, den>> (positions are 0-based in the code)
Rrf(l1, l2, id) ==
  LET a == IF InSeq(l1, id) THEN 60 + PosIn(l1, id) - 1 ELSE 0
      b == IF InSeq(l2, id) THEN 60 + PosIn(l2, id) - 1 ELSE 0
  IN IF a > 0 /\ b > 0 THEN <<a + b, a * b>>
     ELSE IF a > 0 THEN <<1, a>> ELSE <<1, b>>
RrfBefore(l1, l2, x, y) ==
  LET sx == Rrf(l1, l2, x) sy == Rrf(l1, l2, y)
      lhs == sx[1] * sy[2] rhs == sy[1] * sx[2]       \* sx > sy  <=>  lhs > rhs
  IN lhs > rhs \/ (lhs = rhs /\ x < y)
RrfMerge(l1, l2) ==
  SetToSortSeq({l1[j] : j \in 1..Len(l1)} \cup {l2[j] : j \in 1..Len(l2)},
               LAMBDA x, y : RrfBefore(l1, l2, x, y))

CandidatesOf(pop, limit, mode) ==
  IF mode = "vec" THEN Take(VecOrder(pop), TopK(limit))
  ELSE RrfMerge(Take(TxtOrder(pop), TopK(limit)), Take(VecOrder(pop), TopK(limit)))

SearchPageOf(pop, sem, limit, mode) ==
  IF EffSearchLimit(limit) = 0 THEN <<>>
  ELSE Take(SelectSeq(CandidatesOf(pop, limit, mode), LAMBDA id : id \in sem), EffSearchLimit(limit))
SearchFull(pop, sem) == SelectSeq(Candidates(pop), LAMBDA id : id \in sem)
SearchPage(pop, flt, limit) == SearchPageOf(pop, Sem(flt, pop), limit, "vec")

---------------------------------------------------------------------------
(* Laws the oracle must satisfy itself (checked by TLC on every enumerated *)
(* case, so that the oracle is self-consistent before it judges the code). *)
IsPrefixOf(s, t) == Len(s) <= Len(t) /\ SubSeq(t, 1, Len(s)) = s
IsSuffixOf(s, t) == Len(s) <= Len(t) /\ SubSeq(t, Len(t) - Len(s) + 1, Len(t)) = s

Laws(flt, pop) ==
  LET full == Asc(Sem(flt, pop)) IN
  /\ Sem(flt, pop) \subseteq Live(pop)
  /\ Sem(<<"not", <<"not", flt>>>>, pop) = Sem(flt, pop)
  /\ Sem(<<"and", <<flt, flt>>>>, pop) = Sem(flt, pop)
  /\ Sem(<<"or", <<flt, flt>>>>, pop) = Sem(flt, pop)
  /\ Sem(<<"and", <<flt, <<"not", flt>>>>>>, pop) = {}
  /\ Sem(<<"or", <<flt, <<"not", flt>>>>>>, pop) = Live(pop)
  /\ (flt[1] \in {"and", "or"} =>
        LET dual == IF flt[1] = "and" THEN "or" ELSE "and"
            negs == [i \in 1..Len(flt[2]) |-> <<"not", flt[2][i]>>]
        IN Sem(<<"not", flt>>, pop) = Sem(<<dual, negs>>, pop))          \* De Morgan
  /\ (flt[1] = "field" /\ flt[3][1] = "between" =>
        Sem(flt, pop) = Sem(<<"field", flt[2], <<"and", << <<"ge", flt[3][2]>>, <<"le", flt[3][3]>> >> >> >>, pop))
  /\ \A l \in {NoLimit} \cup (0..(Len(full) + 1)) \cup {MaxSearchLimit + 1} :
        /\ IsPrefixOf(PageFirst(full, l), full)
        /\ IsSuffixOf(PageLast(full, l), full)
        /\ Len(PageFirst(full, l)) = Len(PageLast(full, l))
        /\ (l # NoLimit /\ l <= Len(full) => Len(PageFirst(full, l)) = l)
        /\ (l = NoLimit \/ l > Len(full) => PageFirst(full, l) = full /\ PageLast(full, l) = full)
=============================================================================
