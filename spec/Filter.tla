------------------------------- MODULE Filter -------------------------------
(***************************************************************************)
(* Reference semantics of anda-db filters (C03) and of B-tree range        *)
(* queries seen as predicates over keys (C10a).                            *)
(*                                                                         *)
(* A population maps every id ever allocated to a record                   *)
(*   [live : BOOLEAN, a : SUBSET Key, b : SUBSET Key, rank : Nat]          *)
(* `a` is a scalar optional field (0 or 1 key), `b` an array field (any    *)
(* number of keys, duplicates collapse), `rank` is the relevance position  *)
(* of the document in a search (1 = most relevant).  The pseudo field      *)
(* "_id" has exactly the key id.                                           *)
(*                                                                         *)
(* Range queries and filters are tagged tuples so that ToJson prints them  *)
(* as arrays the harness can rebuild:                                      *)
(*   <<"eq",k>> <<"gt",k>> <<"ge",k>> <<"lt",k>> <<"le",k>>                *)
(*   <<"between",lo,hi>>  <<"include",<<k1,..>>>>                          *)
(*   <<"and",<<q1,..>>>>  <<"or",<<q1,..>>>>  <<"not",q>>                  *)
(*   <<"field",name,q>>   (filter level; and/or/not as above)              *)
(***************************************************************************)
EXTENDS Naturals, Integers, Sequences, FiniteSets, SequencesExt, FiniteSetsExt

MaxSearchLimit == 1000      \* Collection::MAX_SEARCH_LIMIT
DefaultSearchLimit == 10    \* Query::limit default in search_ids
NoLimit == -1               \* encodes Option::None

---------------------------------------------------------------------------
(* Key predicates: RangeQuery as a predicate over one key.                 *)
RECURSIVE KeyPred(_, _)
KeyPred(q, k) ==
  CASE q[1] = "eq"      -> k = q[2]
    [] q[1] = "gt"      -> k > q[2]
    [] q[1] = "ge"      -> k >= q[2]
    [] q[1] = "lt"      -> k < q[2]
    [] q[1] = "le"      -> k <= q[2]
    [] q[1] = "between" -> q[2] <= k /\ k <= q[3]      \* inverted => empty
    [] q[1] = "include" -> \E i \in 1..Len(q[2]) : q[2][i] = k
    [] q[1] = "and"     -> \A i \in 1..Len(q[2]) : KeyPred(q[2][i], k)
    [] q[1] = "or"      -> \E i \in 1..Len(q[2]) : KeyPred(q[2][i], k)
    [] q[1] = "not"     -> ~KeyPred(q[2], k)

(* An ordered multimap  key -> set of ids  answers a range query with the  *)
(* union of the id sets of the keys satisfying the predicate.              *)
KeysOf(pop, id, f) == IF f = "_id" THEN {id} ELSE pop[id][f]
Live(pop) == {id \in DOMAIN pop : pop[id].live}

FieldMatch(pop, f, q) ==
  {id \in Live(pop) : \E k \in KeysOf(pop, id, f) : KeyPred(q, k)}

---------------------------------------------------------------------------
(* Filter = set algebra over the live documents.                           *)
RECURSIVE Sem(_, _)
Sem(flt, pop) ==
  CASE flt[1] = "field" -> FieldMatch(pop, flt[2], flt[3])
    [] flt[1] = "and"   -> {id \in Live(pop) : \A i \in 1..Len(flt[2]) : id \in Sem(flt[2][i], pop)}
    [] flt[1] = "or"    -> UNION {Sem(flt[2][i], pop) : i \in 1..Len(flt[2])}
    [] flt[1] = "not"   -> Live(pop) \ Sem(flt[2], pop)

Asc(S) == SetToSortSeq(S, <)

Take(s, n) == SubSeq(s, 1, IF n < Len(s) THEN n ELSE Len(s))
TakeLast(s, n) == SubSeq(s, (IF n < Len(s) THEN Len(s) - n ELSE 0) + 1, Len(s))

(* query_ids / query_last_ids: the first / last `limit` of the ascending   *)
(* full result; None = MaxSearchLimit; 0 = nothing.                        *)
EffLimit(limit) == IF limit = NoLimit \/ limit > MaxSearchLimit THEN MaxSearchLimit ELSE limit
PageFirst(full, limit) == Take(full, EffLimit(limit))
PageLast(full, limit)  == TakeLast(full, EffLimit(limit))

(* search_ids with a filter: relevance-ordered candidates restricted to    *)
(* the match set, head kept.                                               *)
EffSearchLimit(limit) ==
  IF limit = NoLimit THEN DefaultSearchLimit
  ELSE IF limit > MaxSearchLimit THEN MaxSearchLimit ELSE limit
Candidates(pop) == SetToSortSeq(Live(pop), LAMBDA x, y : pop[x].rank < pop[y].rank)
SearchFull(pop, sem) == SelectSeq(Candidates(pop), LAMBDA id : id \in sem)
SearchPage(pop, flt, limit) == Take(SearchFull(pop, Sem(flt, pop)), EffSearchLimit(limit))

---------------------------------------------------------------------------
(* Laws the oracle must satisfy itself (checked by TLC on every enumerated *)
(* case, so that the oracle is self-consistent before it judges the code). *)
IsPrefixOf(s, t) == Len(s) <= Len(t) /\ SubSeq(t, 1, Len(s)) = s
IsSuffixOf(s, t) == Len(s) <= Len(t) /\ SubSeq(t, Len(t) - Len(s) + 1, Len(t)) = s

Laws(flt, pop) ==
  LET full == Asc(Sem(flt, pop)) IN
  /\ Sem(flt, pop) \subseteq Live(pop)
  /\ Sem(<<"not", <<"not", flt>>>>, pop) = Sem(flt, pop)
  /\ Sem(<<"and", <<flt, flt>>>>, pop) = Sem(flt, pop)
  /\ Sem(<<"or", <<flt, flt>>>>, pop) = Sem(flt, pop)
  /\ Sem(<<"and", <<flt, <<"not", flt>>>>>>, pop) = {}
  /\ Sem(<<"or", <<flt, <<"not", flt>>>>>>, pop) = Live(pop)
  /\ (flt[1] \in {"and", "or"} =>
        LET dual == IF flt[1] = "and" THEN "or" ELSE "and"
            negs == [i \in 1..Len(flt[2]) |-> <<"not", flt[2][i]>>]
        IN Sem(<<"not", flt>>, pop) = Sem(<<dual, negs>>, pop))          \* De Morgan
  /\ (flt[1] = "field" /\ flt[3][1] = "between" =>
        Sem(flt, pop) = Sem(<<"field", flt[2], <<"and", << <<"ge", flt[3][2]>>, <<"le", flt[3][3]>> >> >> >>, pop))
  /\ \A l \in {NoLimit} \cup (0..(Len(full) + 1)) \cup {MaxSearchLimit + 1} :
        /\ IsPrefixOf(PageFirst(full, l), full)
        /\ IsSuffixOf(PageLast(full, l), full)
        /\ Len(PageFirst(full, l)) = Len(PageLast(full, l))
        /\ (l # NoLimit /\ l <= Len(full) => Len(PageFirst(full, l)) = l)
        /\ (l = NoLimit \/ l > Len(full) => PageFirst(full, l) = full /\ PageLast(full, l) = full)
=============================================================================
