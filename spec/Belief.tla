------------------------------- MODULE Belief -------------------------------
(***************************************************************************)
(* C20 - Epistemic projection of the Cognitive Nexus                       *)
(* (rs/anda_cognitive_nexus/src/projection/{mod,policy}.rs) as a pure      *)
(* function of the SET of assertions: eligibility (lifecycle, valid time,  *)
(* mode), conflict-set expansion for functional predicates, corroboration  *)
(* groups = connected components of "shares the actor or an evidence id",  *)
(* score = 1 - PRODUCT (1 - strongest confidence of the group), computed   *)
(* EXACTLY in integers (confidences in tenths), classification against the *)
(* policy thresholds, ledger of excluded assertions.                       *)
(*                                                                         *)
(* An assertion is a record                                                *)
(*   [actor, ev, stance, conf, mode, win, life, about]                     *)
(*   actor : 1..3           ev : SUBSET 1..3      conf : 0..10 or -1       *)
(*   stance: "support" | "reject" | "uncertain"                            *)
(*   mode  : "stated" | "observed" | "inferred" | "imported" |             *)
(*           "hypothetical" | "predicted"                                  *)
(*   win   : "always" | "ended" (valid_until < at) | "ends_now"            *)
(*           (valid_until = at) | "future" (valid_from > at) |             *)
(*           "starts_now" (valid_from = at) | "current"                    *)
(*   life  : "active" | "retracted" | "superseded"                         *)
(*   about : "target" | "rival" (another value of the same functional slot)*)
(* A case is a SEQUENCE of assertions only because TLC needs an order to   *)
(* enumerate; every operator below depends on the multiset alone, which is *)
(* the property (the harness records every permutation).                   *)
(***************************************************************************)
EXTENDS Naturals, Integers, Sequences, FiniteSets, FiniteSetsExt

Accept == 7          \* policy.accept   = 0.7   (tenths)
Material == 3        \* policy.material = 0.3
Unstated == 5        \* policy.unstated_confidence = 0.5
BaselineModes == {"observed", "stated", "inferred", "imported"}
ForecastModes == {"predicted", "inferred"}

---------------------------------------------------------------------------
(* Stages 4-6: lifecycle, temporal, mode.  "" = eligible.                  *)
Exclusion(a, modes) ==
  IF a.life = "retracted" THEN "retracted"
  ELSE IF a.life = "superseded" THEN "superseded"
  ELSE IF a.win \in {"ended", "ends_now", "future"} THEN "outside_valid_time"
  ELSE IF a.mode \notin modes THEN
         (CASE a.mode = "hypothetical" -> "hypothetical_not_requested"
            [] a.mode = "predicted" -> "prediction_not_requested"
            [] OTHER -> "policy_excluded")
  ELSE ""

Eligible(a, modes) == Exclusion(a, modes) = ""
EffConf(a) == IF a.conf < 0 THEN Unstated ELSE a.conf

\* which side an eligible assertion lands on ("" = none: an uncertain stance, or a rival that does
\* not support its own value)
Side(a) ==
  IF a.about = "target"
  THEN (CASE a.stance = "support" -> "support" [] a.stance = "reject" -> "oppose" [] OTHER -> "")
  ELSE IF a.stance = "support" THEN "oppose" ELSE ""

---------------------------------------------------------------------------
(* Stage 8: corroboration groups over the indices of one side.             *)
Share(a, b) == a.actor = b.actor \/ a.ev \cap b.ev # {}

RECURSIVE Grow(_, _, _)
Grow(as, S, C) ==
  LET C2 == C \cup {j \in S : \E i \in C : Share(as[i], as[j])}
  IN IF C2 = C THEN C ELSE Grow(as, S, C2)

Groups(as, S) == {Grow(as, S, {i}) : i \in S}

GroupMax(as, G) == Max({EffConf(as[i]) : i \in G})

RECURSIVE Pow10(_)
Pow10(n) == IF n = 0 THEN 1 ELSE 10 * Pow10(n - 1)

RECURSIVE ProdMiss(_, _)
ProdMiss(as, Gs) ==
  IF Gs = {} THEN 1
  ELSE LET G == CHOOSE g \in Gs : TRUE IN (10 - GroupMax(as, G)) * ProdMiss(as, Gs \ {G})

\* score of a side as an exact fraction <<num, den>>
Score(as, S) ==
  LET Gs == Groups(as, S) den == Pow10(Cardinality(Gs))
  IN <<den - ProdMiss(as, Gs), den>>

GE(score, tenths) == 10 * score[1] >= tenths * score[2]

---------------------------------------------------------------------------
Idx(as) == 1..Len(as)
SideIdx(as, modes, side) == {i \in Idx(as) : Eligible(as[i], modes) /\ Side(as[i]) = side}
\* an eligible uncertain stance about the target engages the question without taking a side
UncertainIdx(as, modes) ==
  {i \in Idx(as) : Eligible(as[i], modes) /\ as[i].about = "target" /\ as[i].stance \notin {"support", "reject"}}
\* the ledger lists exclusions of assertions about the target only (rivals are expanded silently)
ExcludedIdx(as, modes) == {i \in Idx(as) : as[i].about = "target" /\ ~Eligible(as[i], modes)}

Classify(sup, opp, engaged) ==
  IF ~engaged THEN "insufficient"
  ELSE IF GE(sup, Accept) /\ ~GE(opp, Material) THEN "accepted"
  ELSE IF GE(opp, Accept) /\ ~GE(sup, Material) THEN "rejected"
  ELSE IF GE(sup, Material) /\ GE(opp, Material) THEN "contested"
  ELSE "uncertain"

Project(as, modes) ==
  LET S == SideIdx(as, modes, "support")
      O == SideIdx(as, modes, "oppose")
      U == UncertainIdx(as, modes)
      sup == Score(as, S)
      opp == Score(as, O)
      ng == Cardinality(Groups(as, S))
      no == Cardinality(Groups(as, O))
  IN [status |-> Classify(sup, opp, ng > 0 \/ no > 0 \/ U # {}),
      support |-> sup, opposition |-> opp,
      support_groups |-> ng, opposition_groups |-> no,
      n_supporting |-> Cardinality(S), n_opposing |-> Cardinality(O), n_uncertain |-> Cardinality(U),
      excluded |-> [r \in {"retracted", "superseded", "outside_valid_time", "hypothetical_not_requested",
                           "prediction_not_requested", "policy_excluded"} |->
                      Cardinality({i \in ExcludedIdx(as, modes) : Exclusion(as[i], modes) = r})]]

---------------------------------------------------------------------------
(* Laws (C20's statement), evaluated by TLC on every enumerated case       *)
(* against every one-assertion extension drawn from Ext.                   *)
ScoreLE(x, y) == x[1] * y[2] <= y[1] * x[2]
ScoreEQ(x, y) == x[1] * y[2] = y[1] * x[2]

Laws(as, modes, Ext) ==
  LET p == Project(as, modes) IN
  \* silence is not rejection
  /\ (SideIdx(as, modes, "support") = {} /\ SideIdx(as, modes, "oppose") = {} /\ UncertainIdx(as, modes) = {}
        => p.status = "insufficient")
  /\ (p.status = "rejected" => p.opposition_groups > 0 /\ GE(p.opposition, Accept))
  /\ (p.status = "insufficient" => p.support_groups = 0 /\ p.opposition_groups = 0)
  \* scores stay within [0, 1]
  /\ p.support[1] >= 0 /\ p.support[1] <= p.support[2]
  /\ p.opposition[1] >= 0 /\ p.opposition[1] <= p.opposition[2]
  /\ \A x \in Ext :
       LET as2 == Append(as, x) q == Project(as2, modes) IN
       \* excluded assertions contribute nothing (only to the ledger)
       /\ (~Eligible(x, modes) =>
             /\ q.status = p.status /\ ScoreEQ(q.support, p.support) /\ ScoreEQ(q.opposition, p.opposition)
             /\ q.support_groups = p.support_groups /\ q.opposition_groups = p.opposition_groups)
       \* repetition by an actor already on that side, or citing evidence already cited on that side,
       \* never adds a group.  When it joins exactly ONE existing group it changes the score only by
       \* being more confident than that group.  (When it BRIDGES two groups that looked independent
       \* they merge and the score drops to that of the merged group: see BridgeLowersScore.)
       /\ (Eligible(x, modes) /\ Side(x) = "support"
             /\ (\E i \in SideIdx(as, modes, "support") : Share(as[i], x)) =>
             LET S0 == SideIdx(as, modes, "support")
                 touched == {G \in Groups(as, S0) : \E i \in G : Share(as[i], x)}
             IN /\ q.support_groups <= p.support_groups
                /\ (Cardinality(touched) = 1 =>
                      /\ q.support_groups = p.support_groups
                      /\ ScoreLE(p.support, q.support)
                      /\ (EffConf(x) <= GroupMax(as, CHOOSE G \in touched : TRUE) => ScoreEQ(q.support, p.support)))
                /\ (Cardinality(touched) > 1 => q.support_groups < p.support_groups))
       \* a new independent voice never lowers a score
       /\ (Eligible(x, modes) /\ Side(x) = "support"
             /\ (\A i \in SideIdx(as, modes, "support") : ~Share(as[i], x)) =>
             ScoreLE(p.support, q.support) /\ q.support_groups = p.support_groups + 1)
       /\ (Eligible(x, modes) /\ Side(x) = "oppose"
             /\ (\A i \in SideIdx(as, modes, "oppose") : ~Share(as[i], x)) =>
             ScoreLE(p.opposition, q.opposition) /\ q.opposition_groups = p.opposition_groups + 1)

\* the documented consequence of bridging: an assertion that is weaker than everything on record can
\* LOWER the support score, by revealing that two groups were one (known finding c20-bridge-lowers-score)
BridgeLowersScore(as, modes, x) ==
  LET p == Project(as, modes) q == Project(Append(as, x), modes)
  IN Eligible(x, modes) /\ Side(x) = "support" /\ ~ScoreLE(p.support, q.support)
=============================================================================
