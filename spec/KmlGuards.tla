------------------------------ MODULE KmlGuards ------------------------------
(***************************************************************************)
(* C16 - the mutation guards of KML (KIP 2.0), as a pure predicate over an *)
(* ABSTRACT mutation plan.  Mirrors rs/anda_kip/src/parser/kml.rs          *)
(* (guard_update, guard_immutable_field, guard_structural_mutation,        *)
(* validate_clause, validate_exact_patterns, validate_plan, the ASSERT     *)
(* desugaring assert_statement), parser/common.rs (PROTECTED_FIELDS,       *)
(* assignments, unset_field_set), parser.rs::validate_command and          *)
(* SPECIFICATION.md 6.3, 12.5, 13.7, 15.5, 17.5, 53, 54.3, 55.1, 58.1.     *)
(*                                                                         *)
(* What is decided here (and nowhere else): for a plan, which of the rules *)
(* of the property fire (Must), which conservative refusals are tolerated  *)
(* (May), hence the verdict "refuse" / "accept" / "either"; and for the    *)
(* ASSERT shorthand the plan it must expand to (ExpandPlan).  Text         *)
(* rendering, JSON-tree building and the comparison with parse_kip /       *)
(* validate_command live in harness/src/bin/drive_kmlguards.rs.            *)
(*                                                                         *)
(* Abstract syntax (tagged tuples / records, printed with ToJson):         *)
(*  ref    <<"h",n>> ?n | <<"p",n>> :n | <<"id",n>> "n" | <<"none">>        *)
(*  value  <<"num",k>> <<"str",s>> <<"bool">> <<"null">> <<"p",n>>          *)
(*         <<"h",n>> (bare ?n = handle reference)   <<"path",n>> ?n.score   *)
(*         <<"expr",n>> ADD(?n.score, 1)   <<"exprp">> ADD(:pv, 1)          *)
(*         <<"arr",<<v..>>>>   <<"obj",key,v>>   <<"var",n>> (MATCH only)   *)
(*         <<"none">> (UNSET entries)                                       *)
(*  entry  [n |-> field name, q |-> key is quoted, v |-> value]             *)
(*         (+ o |-> value : option object {after: o} of a structural edge)  *)
(*  action [b |-> block, ents |-> <<entry..>>]                              *)
(*  where  <<"pat",kind,var,spelling>> typed element pattern binding var    *)
(*         <<"end",var>>  var bound as an endpoint of an anonymous tuple    *)
(*         <<"belief",var,form>> <<"slot",var>>  belief projections         *)
(*         <<"filter",var>>  FILTER reading ?var.score (binds nothing)      *)
(*         <<"not",w>> <<"opt",w>> <<"union",w>>                            *)
(*  clause [fam, claim, tgt, by, hasw, w, acts] (+ sel | tup | mem, sup |   *)
(*         confirm, by family); plan = sequence of clauses.                *)
(***************************************************************************)
EXTENDS Naturals, Sequences, FiniteSets, TLC

---------------------------------------------------------------------------
(* Field-name classes.  Names are compared by exact, case-sensitive        *)
(* equality (KIP identifiers and object keys are case-sensitive, and the   *)
(* reference engine matches Core field names exactly): "Governance" or     *)
(* "_system.version" are DIFFERENT, ordinary names.                        *)
Protected      == {"_system", "governance", "space_id", "space_seq"}
ImmAssertion   == {"proposition_id", "proposition", "asserted_by", "stance", "mode", "confidence",
                   "asserted_at", "valid_time", "evidence", "evidence_refs"}
ImmEvidence    == {"evidence_class", "payload", "content_digest", "media_type", "observed_at"}
ImmProposition == {"subject", "predicate", "object"}

Kinds       == {"concept", "proposition", "assertion", "evidence", "activity"}
RecordKinds == Kinds \ {"concept"}     \* UPDATE never reaches their structural references (17.5)
Immutable(k) == CASE k = "assertion"   -> ImmAssertion
                  [] k = "evidence"    -> ImmEvidence
                  [] k = "proposition" -> ImmProposition
                  [] OTHER             -> {}

(* Blocks.  AssignBlocks name fields of the element envelope (assignment   *)
(* keys / unset lists); StructBlocks name schema symbols of the structural *)
(* plane (a separate namespace: the protected-name rule does not apply).   *)
AssignBlocks == {"FIELDS", "ATTRS", "FACET", "UNATTRS", "UNFACET", "RETENTION"}
StructBlocks == {"STRUCT", "UNSTRUCT"}
Admits(fam) ==
  CASE fam = "create_concept" -> {"FIELDS", "ATTRS", "FACET", "STRUCT"}
    [] fam = "upsert_concept" -> {"FIELDS", "ATTRS", "FACET", "STRUCT", "UNATTRS", "UNFACET", "UNSTRUCT"}
    [] fam \in {"create_evidence", "create_assertion", "create_activity"} -> {"FIELDS", "FACET", "STRUCT"}
    [] fam = "update"         -> {"FIELDS", "ATTRS", "FACET", "STRUCT", "UNATTRS", "UNFACET", "UNSTRUCT"}
    [] fam = "transition"     -> {"FIELDS", "STRUCT"}
    [] fam = "set_retention"  -> {"RETENTION"}
    [] OTHER                  -> {}

WhereFams   == {"update", "retract", "set_retention", "archive", "tombstone", "purge", "merge", "export"}
AssertMembers == {"by", "mode", "stance", "confidence", "at", "valid", "evidence", "key"}

\* a clause with every common field at its default
Cl(fam) == [fam |-> fam, claim |-> "", tgt |-> <<"none">>, by |-> <<"none">>, hasw |-> FALSE, w |-> <<>>, acts |-> <<>>]

---------------------------------------------------------------------------
(* Handles and reads of values.                                            *)
RECURSIVE ValH(_), ValR(_)
ValH(v) == CASE v[1] = "h"   -> {v[2]}
             [] v[1] = "arr" -> UNION {ValH(v[2][i]) : i \in DOMAIN v[2]}
             [] v[1] = "obj" -> ValH(v[3])
             [] OTHER        -> {}
ValR(v) == CASE v[1] \in {"path", "expr"} -> {v[2]}
             [] v[1] = "arr" -> UNION {ValR(v[2][i]) : i \in DOMAIN v[2]}
             [] v[1] = "obj" -> ValR(v[3])
             [] OTHER        -> {}
RefH(r) == IF r[1] = "h" THEN {r[2]} ELSE {}
EntH(e) == ValH(e.v) \cup (IF "o" \in DOMAIN e THEN ValH(e.o) ELSE {})
SeqH(es) == UNION {EntH(es[i]) : i \in DOMAIN es}
SeqR(es) == UNION {ValR(es[i].v) : i \in DOMAIN es}
ActsH(c) == UNION {SeqH(c.acts[i].ents) : i \in DOMAIN c.acts}
ActsR(c) == UNION {SeqR(c.acts[i].ents) : i \in DOMAIN c.acts}
Names(es) == {es[i].n : i \in DOMAIN es}
DupKey(es) == \E i, j \in DOMAIN es : i < j /\ es[i].n = es[j].n

---------------------------------------------------------------------------
(* WHERE blocks.                                                           *)
RECURSIVE BoundIn(_), PosBoundIn(_), HasBelief(_), TypedIn(_, _), Solve(_, _, _)
Nest == {"not", "opt", "union"}

\* every variable the block mentions in a binding position, at any depth (syntactic scope)
BoundIn(w) == UNION { IF w[i][1] = "pat" THEN {w[i][3]}
                      ELSE IF w[i][1] \in {"end", "belief", "slot"} THEN {w[i][2]}
                      ELSE IF w[i][1] \in Nest THEN BoundIn(w[i][2]) ELSE {} : i \in DOMAIN w }
\* ... outside NOT { } only: an anti-join exports no binding
PosBoundIn(w) == UNION { IF w[i][1] = "pat" THEN {w[i][3]}
                         ELSE IF w[i][1] \in {"end", "belief", "slot"} THEN {w[i][2]}
                         ELSE IF w[i][1] \in {"opt", "union"} THEN PosBoundIn(w[i][2]) ELSE {} : i \in DOMAIN w }
HasBelief(w) == \E i \in DOMAIN w : \/ w[i][1] \in {"belief", "slot"}
                                    \/ w[i][1] \in Nest /\ HasBelief(w[i][2])
\* every kind some pattern of the block gives to variable t, at any depth, NOT included
TypedIn(t, w) == UNION { IF w[i][1] = "pat" /\ w[i][3] = t THEN {w[i][2]}
                         ELSE IF w[i][1] \in Nest THEN TypedIn(t, w[i][2]) ELSE {} : i \in DOMAIN w }

(* Which kinds can variable t have in a solution row?  Abstract            *)
(* interpretation of the solver's algebra (patterns join in order, UNION   *)
(* adds the rows of an independent branch, OPTIONAL left-joins, NOT        *)
(* anti-joins): a row is abstracted to "unbound", "any" (bound, untyped)   *)
(* or the kind t is bound to.  An over-approximation: filters and          *)
(* anti-joins only remove rows.                                            *)
Join(a, b) == IF a = "unbound" THEN {b} ELSE IF b = "unbound" THEN {a}
              ELSE IF a = "any" THEN {b} ELSE IF b = "any" THEN {a}
              ELSE IF a = b THEN {a} ELSE {}
Solve(t, w, i) ==          \* rows after the first i items
  IF i = 0 THEN {"unbound"}
  ELSE LET S == Solve(t, w, i - 1)  it == w[i] IN
       CASE it[1] = "pat" /\ it[3] = t -> UNION {Join(s, it[2]) : s \in S}
         [] it[1] = "end" /\ it[2] = t -> UNION {Join(s, "any") : s \in S}
         [] it[1] = "union" -> S \cup Solve(t, it[2], Len(it[2]))
         [] it[1] = "opt"   -> S \cup UNION {Join(s, r) : s \in S, r \in Solve(t, it[2], Len(it[2]))}
         [] OTHER           -> S
PossibleKinds(t, w) == Solve(t, w, Len(w)) \cap Kinds

---------------------------------------------------------------------------
(* Plans: who binds what.                                                  *)
Claims(p) == {p[k].claim : k \in DOMAIN p} \ {""}
DupClaim(p) == \E j, k \in DOMAIN p : j < k /\ p[j].claim # "" /\ p[j].claim = p[k].claim

ClaimKind(c) == CASE c.fam \in {"create_concept", "upsert_concept"} -> "concept"
                  [] c.fam = "create_evidence"                     -> "evidence"
                  [] c.fam \in {"create_assertion", "assert"}      -> "assertion"
                  [] c.fam = "create_activity"                     -> "activity"
                  [] c.fam = "ensure"                              -> "proposition"
                  [] OTHER                                         -> "none"
PlanKinds(p, n) == {ClaimKind(p[k]) : k \in {j \in DOMAIN p : p[j].claim = n}}

TupH(c) == IF c.tup.form = "tuple" THEN RefH(c.tup.s) \cup RefH(c.tup.o) ELSE {}
\* every handle the clause references in an executable position: targets, operands, values, edge options,
\* ASSERT members ... and the endpoints of the tuple of ENSURE PROPOSITION / ASSERT
PlainRefs(c) == RefH(c.tgt) \cup RefH(c.by) \cup ActsH(c)
                \cup (IF c.fam = "assert" THEN SeqH(c.mem) \cup RefH(c.sup) ELSE {})
TupleRefs(c) == IF c.fam \in {"ensure", "assert"} THEN TupH(c) ELSE {}
Refs(c) == PlainRefs(c) \cup TupleRefs(c)
OwnVars(c) == IF c.hasw THEN BoundIn(c.w) ELSE {}
PosVars(c) == IF c.hasw THEN PosBoundIn(c.w) ELSE {}

\* the kinds the target of an UPDATE may have: what its own WHERE can bind it to, and what the plan created it as
TargetKinds(p, c) ==
  IF c.tgt[1] # "h" THEN {}
  ELSE (IF c.hasw THEN PossibleKinds(c.tgt[2], c.w) ELSE {}) \cup (PlanKinds(p, c.tgt[2]) \cap Kinds)
\* ... every kind the text associates with the target anywhere (tolerated conservative refusals)
TargetKindsSyn(p, c) ==
  IF c.tgt[1] # "h" THEN {}
  ELSE (IF c.hasw THEN TypedIn(c.tgt[2], c.w) ELSE {}) \cup (PlanKinds(p, c.tgt[2]) \cap Kinds)

ImmHit(c, ks) == \E i \in DOMAIN c.acts : /\ c.acts[i].b = "FIELDS"
                                          /\ \E j \in DOMAIN c.acts[i].ents : \E k \in ks : c.acts[i].ents[j].n \in Immutable(k)
StructHit(c, ks) == ks \cap RecordKinds # {} /\ \E i \in DOMAIN c.acts : c.acts[i].b \in StructBlocks

---------------------------------------------------------------------------
(* The rules.  T(cond, tag) contributes a tag when the rule fires.         *)
T(cond, tag) == IF cond THEN {tag} ELSE {}

Stable(c) == \E i \in DOMAIN c.sel : c.sel[i].n \in {"id", "key"} /\ c.sel[i].v[1] \in {"num", "str", "bool", "null", "p"}
KeyOK(v)  == v[1] \in {"num", "str", "bool", "null", "p"}

ClauseMust(p, c) ==
  \* engine-owned state (6.3, 2.11): any assignment / unset key of any block, any family; ASSERT members too
       T(\E i \in DOMAIN c.acts : c.acts[i].b \in AssignBlocks /\ Names(c.acts[i].ents) \cap Protected # {}, "protected")
  \cup T(c.fam = "assert" /\ Names(c.mem) \cap Protected # {}, "protected")
  \* immutable payload (12.5, 13.7, 15.5) and record topology (17.5): UPDATE only
  \cup T(c.fam = "update" /\ ImmHit(c, TargetKinds(p, c)), "immutable")
  \cup T(c.fam = "update" /\ StructHit(c, TargetKinds(p, c)), "structural")
  \* a belief projection is never a mutation target or an export selector (21.2)
  \cup T(c.fam \in WhereFams /\ c.hasw /\ HasBelief(c.w), "belief")
  \* no structure from a bare id; exact tuples only
  \cup T(c.fam \in {"ensure", "assert"} /\ c.tup.form \in {"id", "idp"}, "bareid")
  \cup T(c.fam \in {"ensure", "assert"} /\ c.tup.form \in {"predvar", "litsubj"}, "tuple")
  \* identity selectors (54.3)
  \cup T(c.fam = "upsert_concept" /\ ~Stable(c), "selector")
  \* ASSERT has no default actor or mode, a closed member list, a scalar key (55.1)
  \cup T(c.fam = "assert" /\ {"by", "mode"} \ Names(c.mem) # {}, "assert_actor_mode")
  \cup T(c.fam = "assert" /\ Names(c.mem) \ (AssertMembers \cup Protected) # {}, "assert_member")
  \cup T(c.fam = "assert" /\ \E i \in DOMAIN c.mem : c.mem[i].n = "key" /\ ~KeyOK(c.mem[i].v), "assert_key")
  \cup T(c.fam = "assert" /\ DupKey(c.mem), "dupkey")
  \* grammar-level rules the tree validator re-checks
  \cup T(\E i \in DOMAIN c.acts : c.acts[i].b \notin Admits(c.fam), "not_admitted")
  \cup T(\E i \in DOMAIN c.acts : DupKey(c.acts[i].ents) /\ c.acts[i].b \notin StructBlocks, "dupkey")
  \cup T(\E i, j \in DOMAIN c.acts : i < j /\ c.acts[i].b = c.acts[j].b /\ c.acts[i].b # "FACET" /\ c.fam # "update", "dupblock")
  \cup T(c.fam = "update" /\ c.acts = <<>>, "no_action")
  \cup T(\E i \in DOMAIN c.acts : c.acts[i].b = "UNSTRUCT" /\ c.acts[i].ents = <<>>, "empty_unset")
  \cup T(c.fam = "purge" /\ c.confirm # "PURGE", "confirm")
  \cup T(c.fam = "export" /\ c.w = <<>>, "unbounded_export")
  \* an update expression reads only the element being updated
  \cup T(c.fam = "update" /\ c.tgt[1] = "h" /\ ActsR(c) \ {c.tgt[2]} # {}, "reads_other")
  \* handles: every reference has exactly one binder - a claiming clause of the plan, or the clause's OWN WHERE
  \cup T(\E r \in PlainRefs(c) : r \notin Claims(p) /\ r \notin OwnVars(c), "unbound")
  \cup T(\E r \in TupleRefs(c) : r \notin Claims(p), "unbound_tuple")
  \cup T(\E r \in Refs(c) : r \in Claims(p) /\ r \in OwnVars(c), "twice")

Must(p) == T(Len(p) = 0, "empty_plan") \cup T(DupClaim(p), "dupclaim") \cup UNION {ClauseMust(p, p[k]) : k \in DOMAIN p}

\* conservative refusals the property tolerates (the verdict is then "either")
ClauseMay(p, c) ==
       T(c.fam = "update" /\ ImmHit(c, TargetKindsSyn(p, c)), "immutable_syn")
  \cup T(c.fam = "update" /\ StructHit(c, TargetKindsSyn(p, c)), "structural_syn")
  \cup T(\E r \in Refs(c) : r \notin Claims(p) /\ r \in OwnVars(c) \ PosVars(c), "bound_under_not")
  \cup T(ActsR(c) # {} /\ ~(c.fam = "update" /\ c.tgt[1] = "h"), "free_read")
May(p) == UNION {ClauseMay(p, p[k]) : k \in DOMAIN p}

Verdict(p) == IF Must(p) # {} THEN "refuse" ELSE IF May(p) # {} THEN "either" ELSE "accept"

---------------------------------------------------------------------------
(* The ASSERT shorthand (55.1): exactly ENSURE PROPOSITION + CREATE        *)
(* ASSERTION (+ SUPERSEDE ASSERTION), carrying exactly the authored        *)
(* members.  Synthetic handles are written "#a<k>" / "#p<k>" (k = position *)
(* of the ASSERT in the source plan): they only have to be distinct from   *)
(* every authored handle and from each other.                              *)
SynthA == <<"#a1", "#a2", "#a3">>
SynthP == <<"#p1", "#p2", "#p3">>
Mem(c, n) == LET i == CHOOSE i \in DOMAIN c.mem : c.mem[i].n = n IN c.mem[i].v
Has(c, n) == n \in Names(c.mem)
FieldOf == [by |-> "asserted_by", mode |-> "mode", stance |-> "stance", confidence |-> "confidence",
            at |-> "asserted_at", valid |-> "valid_time"]
Opt(c, n) == IF Has(c, n) THEN << [n |-> FieldOf[n], q |-> FALSE, v |-> Mem(c, n)] >> ELSE <<>>
EvidenceItems(v) == IF v[1] = "arr" THEN v[2] ELSE <<v>>

ExpandAssert(c, k) ==
  LET A == IF c.claim # "" THEN c.claim ELSE SynthA[k]
      P == SynthP[k]
      fields == << [n |-> "proposition", q |-> FALSE, v |-> <<"h", P>>],
                   [n |-> "asserted_by", q |-> FALSE, v |-> Mem(c, "by")],
                   [n |-> "mode",        q |-> FALSE, v |-> Mem(c, "mode")],
                   [n |-> "stance",      q |-> FALSE, v |-> IF Has(c, "stance") THEN Mem(c, "stance") ELSE <<"str", "support">>] >>
                \o Opt(c, "confidence") \o Opt(c, "at") \o Opt(c, "valid")
      items == IF Has(c, "evidence") THEN EvidenceItems(Mem(c, "evidence")) ELSE <<>>
      edges == [i \in DOMAIN items |-> [n |-> "evidence", q |-> TRUE, v |-> items[i], role |-> "support"]]
      acts == << [b |-> "FIELDS", ents |-> fields] >>
              \o (IF items = <<>> THEN <<>> ELSE << [b |-> "STRUCT", ents |-> edges] >>)
      ens == [Cl("ensure") EXCEPT !.claim = P] @@ [tup |-> c.tup]
      cre == [Cl("create_assertion") EXCEPT !.claim = A, !.acts = acts]
             @@ [ckey |-> IF Has(c, "key") THEN Mem(c, "key") ELSE <<"none">>]
      sup == [Cl("supersede") EXCEPT !.tgt = c.sup, !.by = <<"h", A>>]
  IN <<ens, cre>> \o (IF c.sup[1] = "none" THEN <<>> ELSE <<sup>>)

RECURSIVE ExpandFrom(_, _)
ExpandFrom(p, k) == IF k > Len(p) THEN <<>>
                    ELSE (IF p[k].fam = "assert" THEN ExpandAssert(p[k], k) ELSE <<p[k]>>) \o ExpandFrom(p, k + 1)
ExpandPlan(p) == ExpandFrom(p, 1)
HasAssert(p) == \E k \in DOMAIN p : p[k].fam = "assert"

---------------------------------------------------------------------------
(* Laws the oracle satisfies itself (checked by TLC on every enumerated    *)
(* plan).                                                                  *)
Reverse(p) == [k \in DOMAIN p |-> p[Len(p) + 1 - k]]
HandleTags == {"unbound", "unbound_tuple", "twice", "dupclaim"}
SugarTags == {"protected", "bareid", "tuple", "assert_actor_mode", "assert_member", "assert_key", "dupkey"}
Laws(p) ==
  \* a semantic kind is a syntactic kind: Must-refusals are a subset of the tolerated ones
  /\ \A k \in DOMAIN p : TargetKinds(p, p[k]) \subseteq TargetKindsSyn(p, p[k])
  /\ \A k \in DOMAIN p : PosVars(p[k]) \subseteq OwnVars(p[k])
  \* clause order carries no meaning for handle resolution (53.3 forward references, 53.4)
  /\ (~HasAssert(p)) => Must(Reverse(p)) = Must(p)
  \* the shorthand and its expansion are the same plan: an ASSERT the sugar rules admit is accepted
  \* exactly when its expansion is, and for the same reasons
  /\ (HasAssert(p) /\ Must(p) \cap SugarTags = {}) =>
        LET x == ExpandPlan(p) IN Must(x) = Must(p) /\ May(x) = May(p) /\ ~HasAssert(x)
=============================================================================
