----------------------------- MODULE HnswTrace -----------------------------
(***************************************************************************)
(* C12: trace validation of the real HnswIndex (harness/src/bin/           *)
(* drive_hnsw.rs) against Hnsw.tla.                                        *)
(*  - insert / remove return what the model returns;                       *)
(*  - every recorded search returns at most k distinct ids, each HELD by   *)
(*    the model at that moment, in non-decreasing distance order, and each *)
(*    reported distance is bit-for-bit the metric between the query and    *)
(*    the vector the model says that id holds (computed by the harness     *)
(*    from its own copy of the vector with that tag);                      *)
(*  - every flush callback is the next protocol step: node blobs carry the *)
(*    vector the id holds, the ids object is exactly the held set, the     *)
(*    metadata carries the tombstones; a purge callback never names a held *)
(*    id; a cold load after every durable write returns Loadable, a crash  *)
(*    re-bases the model on LoadedLive, which must be what the loaded      *)
(*    index reports (ids AND vectors);                                     *)
(*  - recall events of the documented workloads carry recall per mille,    *)
(*    the number of unsound results and failed searches: floors below.     *)
(***************************************************************************)
EXTENDS Hnsw, Integers, Sequences, Json, IOUtils, TLC, TLCExt

Rec == ndJsonDeserialize(IOEnv.TRACE)
SeqToSet(s) == {s[j] : j \in 1..Len(s)}
Hdr == Rec[1]
TrIds == 1..Hdr.ni
TrMaxTag == Hdr.maxtag + 1

VARIABLES l
tvars == <<hvars, l>>
Ev == Rec[l]
IsEv(e) == l <= Len(Rec) /\ Ev.e = e /\ l' = l + 1

ObsLive(ids, tags) == [i \in Ids |-> IF \E j \in 1..Len(ids) : ids[j] = i
                                     THEN tags[CHOOSE j \in 1..Len(ids) : ids[j] = i] ELSE 0]

TrReset ==
  /\ IsEv("reset")
  /\ live' = None /\ tomb' = {} /\ dirty' = {} /\ blob' = None /\ dIds' = {} /\ dTomb' = {} /\ hasMeta' = FALSE
  /\ fl' = Idle /\ cmt' = None /\ nextTag' = 1 /\ want' = None /\ ever' = [i \in Ids |-> {}]

TrOp ==
  /\ IsEv("op") /\ fl' = Crossed
  /\ CASE Ev.op = "insert" ->
            IF live[Ev.id] = 0
            THEN /\ Ev.ret = 1 /\ nextTag' = Ev.tag + 1 /\ Ev.tag >= nextTag
                 /\ live' = [live EXCEPT ![Ev.id] = Ev.tag] /\ want' = [want EXCEPT ![Ev.id] = Ev.tag]
                 /\ tomb' = tomb \ {Ev.id} /\ dirty' = dirty \cup {Ev.id}
                 /\ ever' = [ever EXCEPT ![Ev.id] = @ \cup {Ev.tag}]
            ELSE /\ Ev.ret = 0 /\ nextTag' = Ev.tag + 1 /\ UNCHANGED <<live, want, tomb, dirty, ever>>
       [] Ev.op = "remove" ->
            IF live[Ev.id] # 0
            THEN /\ Ev.ret = 1
                 /\ live' = [live EXCEPT ![Ev.id] = 0] /\ want' = [want EXCEPT ![Ev.id] = 0]
                 /\ tomb' = tomb \cup {Ev.id} /\ dirty' = dirty \ {Ev.id}
                 /\ UNCHANGED <<nextTag, ever>>
            ELSE /\ Ev.ret = 0 /\ want' = [want EXCEPT ![Ev.id] = 0] /\ UNCHANGED <<live, tomb, dirty, nextTag, ever>>
  /\ Ev.n = Cardinality({i \in Ids : live'[i] # 0})
  /\ UNCHANGED <<blob, dIds, dTomb, hasMeta, cmt>>

\* soundness of one search
TrSearch ==
  /\ IsEv("search")
  /\ LET res == Ev.res IN
     /\ Len(res) <= Ev.k
     /\ \A j \in 1..Len(res) : res[j][1] \in Held                                \* each currently in the index
     /\ Cardinality({res[j][1] : j \in 1..Len(res)}) = Len(res)                  \* distinct
     /\ \A j \in 1..(Len(res) - 1) : res[j][2] <= res[j + 1][2]                  \* non-decreasing distance
     /\ \A j \in 1..Len(res) : res[j][2] = res[j][3] /\ res[j][2] > -2000000000  \* the true, finite distance
  /\ UNCHANGED hvars

TrFcall == IsEv("fcall") /\ FlushSnapshot

\* neighbours of changed nodes are rewritten too: a node write for an id outside the known dirty set is a Touch
TrNode ==
  /\ IsEv("node") /\ fl.st = "nodes"
  /\ Ev.tag # 0 /\ Ev.tag = fl.snap[Ev.id]                      \* the blob carries the vector the id held at the snapshot
  /\ blob' = [blob EXCEPT ![Ev.id] = Ev.tag]
  /\ fl' = [fl EXCEPT !.todo = @ \ {Ev.id}, !.dirty = @ \cup {Ev.id}]
  /\ UNCHANGED <<live, tomb, dirty, dIds, dTomb, hasMeta, cmt, nextTag, want, ever>>

TrIdsEv ==
  /\ IsEv("ids") /\ fl.st = "nodes"
  /\ fl.todo \subseteq {}                                      \* every dirty node was written first
  /\ SeqToSet(Ev.ids) = fl.ids                                 \* exactly the held set
  /\ dIds' = fl.ids /\ fl' = [fl EXCEPT !.st = "ids"]
  /\ UNCHANGED <<live, tomb, dirty, blob, dTomb, hasMeta, cmt, nextTag, want, ever>>

TrMeta ==
  /\ IsEv("meta") /\ fl.st = "ids"
  /\ SeqToSet(Ev.tomb) = fl.tomb
  /\ dTomb' = fl.tomb /\ hasMeta' = TRUE /\ cmt' = fl.snap /\ fl' = [fl EXCEPT !.st = "meta"]
  /\ UNCHANGED <<live, tomb, dirty, blob, dIds, nextTag, want, ever>>

TrFret ==
  /\ IsEv("fret")
  /\ IF Ev.saved THEN FlushCommit
     ELSE /\ fl.st = "nodes" /\ fl.todo = {} /\ fl' = Idle      \* nothing to do: no callback was made
          /\ UNCHANGED <<live, tomb, dirty, blob, dIds, dTomb, hasMeta, cmt, nextTag, want, ever>>
TrFfail == IsEv("ffail") /\ fl' = Idle
           /\ UNCHANGED <<live, tomb, dirty, blob, dIds, dTomb, hasMeta, cmt, nextTag, want, ever>>

\* the blob of a tombstoned id is deleted: never of an id the index holds
TrPurge ==
  /\ IsEv("purge") /\ fl.st = "idle"
  /\ Ev.id \in tomb /\ live[Ev.id] = 0
  /\ blob' = [blob EXCEPT ![Ev.id] = 0] /\ tomb' = tomb \ {Ev.id}
  /\ UNCHANGED <<live, dirty, dIds, dTomb, hasMeta, fl, cmt, nextTag, want, ever>>

\* the purge pass is over: tombstones of ids the index holds were retired without a callback (PurgeSkip)
TrPurged ==
  /\ IsEv("purged") /\ fl.st = "idle"
  /\ tomb' = SeqToSet(Ev.tomb) /\ tomb' \subseteq tomb /\ (tomb \ tomb') \subseteq Held
  /\ UNCHANGED <<live, dirty, blob, dIds, dTomb, hasMeta, fl, cmt, nextTag, want, ever>>

TrLoad ==
  /\ IsEv("load") /\ Ev.ok
  /\ SeqToSet(Ev.ids) = Loadable
  /\ UNCHANGED hvars

TrCrash ==
  /\ IsEv("crash")
  /\ ObsLive(Ev.ids, Ev.tags) = LoadedLive                     \* ids AND vectors
  /\ live' = LoadedLive /\ dirty' = {} /\ fl' = Idle
  \* tombstones of ids that the load found live are kept until the next purge retires them
  /\ tomb' = SeqToSet(Ev.tomb) /\ SeqToSet(Ev.tomb) = (IF hasMeta THEN dTomb ELSE {})
  /\ UNCHANGED <<blob, dIds, dTomb, hasMeta, cmt, nextTag, want, ever>>

TrReindex ==
  /\ IsEv("reindex") /\ fl.st = "idle"
  /\ ObsLive(Ev.ids, Ev.tags) = want
  /\ live' = want
  /\ tomb' = (tomb \cup {i \in Ids : live[i] # 0 /\ want[i] # live[i]}) \ {i \in Ids : want[i] # 0 /\ want[i] # live[i]}
  /\ dirty' = (dirty \cup {i \in Ids : want[i] # 0 /\ want[i] # live[i]}) \ {i \in Ids : want[i] = 0}
  /\ UNCHANGED <<blob, dIds, dTomb, hasMeta, fl, cmt, nextTag, want, ever>>

\* documented workloads: floors per phase (per mille), no unsound result ever; after recovery no failed search
Floor(phase) ==
  CASE phase \in {"fresh", "reloaded"} -> [avg |-> 950, min |-> 600]
    [] phase = "deleted"               -> [avg |-> 900, min |-> 500]
    [] phase = "churn"                 -> [avg |-> 930, min |-> 600]
    \* "within a fixed margin of those floors": 50 per mille below the churn floor
    [] OTHER                           -> [avg |-> 880, min |-> 500]
TrRecall ==
  /\ IsEv("recall")
  /\ Ev.unsound = 0 /\ Ev.failed = 0
  /\ Ev.avg >= Floor(Ev.phase).avg /\ Ev.min >= Floor(Ev.phase).min
  /\ Ev.n = Ev.truth                                  \* the index holds exactly the documents
  /\ UNCHANGED hvars

TraceInit == Init /\ l = 2
TraceNext == TrReset \/ TrOp \/ TrSearch \/ TrFcall \/ TrNode \/ TrIdsEv \/ TrMeta \/ TrFret \/ TrFfail \/ TrPurge \/ TrPurged
             \/ TrLoad \/ TrCrash \/ TrReindex \/ TrRecall
TraceSpec == TraceInit /\ [][TraceNext]_tvars

TraceAccepted ==
  LET d == TLCGet("stats").diameter IN
  IF d = Len(Rec) THEN TRUE
  ELSE /\ PrintT(<<"TRACE_REJECTED", d + 1, ToJson(Rec[d + 1])>>)
       /\ FALSE
=============================================================================
