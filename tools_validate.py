#!/opt/veriftools/pyvenv/bin/python3
"""Validate MANIFEST.json and every evidence file against the schemas in /root/.vp."""
import glob, json, sys
import jsonschema
ok = True
m = json.load(open('/verif/MANIFEST.json'))
jsonschema.validate(m, json.load(open('/root/.vp/MANIFEST.schema.json')))
es = json.load(open('/root/.vp/EVIDENCE.schema.json'))
for f in sorted(glob.glob('/verif/evidence/*.json')):
    try:
        jsonschema.validate(json.load(open(f)), es)
    except Exception as e:
        ok = False
        print("INVALID", f, str(e)[:300])
claimed = {c['property_id'] for c in m['checks']}
na = {c['property_id'] for c in m.get('not_applicable', [])}
allp = {json.loads(l)['id'] for l in open('/verif/properties.jsonl')}
print("claimed", sorted(claimed)); print("n/a", sorted(na)); print("unlisted", sorted(allp - claimed - na))
print("OK" if ok else "FAILED"); sys.exit(0 if ok else 1)
